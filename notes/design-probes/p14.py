import ast, sys, glob, io, tokenize, random, collections
import parso
g = parso.load_grammar(version='3.12')
def has_err(m):
    st = [m]
    while st:
        n = st.pop()
        if n.type in ('error_node', 'error_leaf'): return True
        st.extend(getattr(n, 'children', ()))
    return False
def ast_defs(src, tree):
    lines = src.split('\n')  # only used for byte->char col
    raw = src.encode('utf-8').split(b'\n')
    def col(lineno, boff): return len(raw[lineno-1][:boff].decode('utf-8'))
    toks = [t for t in tokenize.generate_tokens(io.StringIO(src).readline)]
    tokpos = {t.start: i for i, t in enumerate(toks)}
    defs = set()
    def name_after(pos, kw):
        i = tokpos[pos]
        while toks[i].string != kw: i += 1
        i += 1
        return toks[i].start
    for n in ast.walk(tree):
        if isinstance(n, ast.Name) and isinstance(n.ctx, (ast.Store, ast.Del)):
            defs.add((n.lineno, col(n.lineno, n.col_offset)))
        elif isinstance(n, ast.Attribute) and isinstance(n.ctx, (ast.Store, ast.Del)):
            defs.add((n.end_lineno, col(n.end_lineno, n.end_col_offset) - len(n.attr)))
        elif isinstance(n, ast.arg):
            defs.add((n.lineno, col(n.lineno, n.col_offset)))
        elif isinstance(n, (ast.FunctionDef, ast.AsyncFunctionDef)):
            defs.add(name_after((n.lineno, col(n.lineno, n.col_offset)), 'def'))
        elif isinstance(n, ast.ClassDef):
            defs.add(name_after((n.lineno, col(n.lineno, n.col_offset)), 'class'))
        elif isinstance(n, ast.alias):
            if n.name == '*': continue
            pos = (n.lineno, col(n.lineno, n.col_offset))
            if n.asname: defs.add(name_after(pos, 'as'))
            else:
                defs.add(pos)   # first component for `import a.b`; for from-import the name itself
        elif isinstance(n, ast.ExceptHandler) and n.name:
            # find 'as' after the type expr
            t = n.type
            pos = (t.end_lineno, col(t.end_lineno, t.end_col_offset))
            i = min(i for p, i in tokpos.items() if p >= pos and toks[i].string == 'as')
            defs.add(toks[i+1].start)
        elif isinstance(n, (ast.MatchAs, ast.MatchStar, ast.MatchMapping)): raise NotImplementedError
    return defs
def parso_defs(m):
    out = set()
    for names in m.get_used_names().values():
        for n in names:
            if n.is_definition(): out.add(n.start_pos)
    return out
bad = collections.Counter(); n = 0
files = sorted(glob.glob('/root/.pyenv/versions/3.12.1/lib/python3.12/**/*.py', recursive=True))
random.Random(3).shuffle(files)
for f in files[:int(sys.argv[1])]:
    try: src = open(f, encoding='utf-8').read()
    except Exception: continue
    if '\r' in src or '\f' in src: continue
    try: tree = ast.parse(src)
    except Exception: continue
    m = g.parse(src)
    if has_err(m): continue
    try: a = ast_defs(src, tree)
    except NotImplementedError: continue
    p = parso_defs(m); n += 1
    if a != p:
        for pos in sorted(a ^ p)[:3]:
            leaf = m.get_leaf_for_position(pos)
            anc = []; x = leaf
            while x.parent and len(anc) < 4: x = x.parent; anc.append(x.type)
            key = ('ast-only' if pos in a else 'parso-only', tuple(anc))
            bad[key] += 1
            if bad[key] <= 1: print(f, pos, leaf, key, repr(src.split('\n')[pos[0]-1][:100]))
print(n, sum(bad.values())); 
for k, v in bad.most_common(): print(v, k)
