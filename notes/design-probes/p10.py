import sys, glob, os, random, collections
from orc import Oracle, PY
from parso.python.tokenize import tokenize, PythonTokenTypes as T
from parso.utils import parse_version_string
def parso_sig(src, v):
    vi = parse_version_string(v)
    out = []; depth = 0; start = None; buf = ''
    for t in tokenize(src, version_info=vi):
        n = t.type.name
        if depth:
            buf += t.prefix + t.string
            if n == 'FSTRING_START': depth += 1
            elif n == 'FSTRING_END':
                depth -= 1
                if depth == 0: out.append(('STRING', buf, start)); buf = ''
            continue
        if n == 'FSTRING_START':
            depth = 1; start = t.start_pos; buf = t.string; continue
        if n in ('INDENT', 'DEDENT', 'ENDMARKER'): out.append((n, '', None))
        elif n in ('ERRORTOKEN', 'ERROR_DEDENT'): out.append((n, t.string, t.start_pos))
        else: out.append((n, t.string, t.start_pos))
    return out
def cpy_sig(toks, src):
    lines = src.splitlines(True)
    out = []; depth = 0
    def text(s, e):
        (l1, c1), (l2, c2) = s, e
        if l1 == l2: return lines[l1-1][c1:c2]
        return lines[l1-1][c1:] + ''.join(lines[l1:l2-1]) + lines[l2-1][:c2]
    for n, s, l1, c1, l2, c2 in toks:
        if depth:
            if n == 'FSTRING_START': depth += 1
            elif n == 'FSTRING_END':
                depth -= 1
                if depth == 0: out.append(('STRING', text(start, (l2, c2)), start))
            continue
        if n == 'FSTRING_START': depth = 1; start = (l1, c1); continue
        if n in ('COMMENT', 'NL', 'ENCODING'): continue
        if n == 'NEWLINE' and s == '': continue
        if n in ('ASYNC', 'AWAIT'): n = 'NAME'
        if n in ('INDENT', 'DEDENT', 'ENDMARKER'): out.append((n, '', None))
        else: out.append((n, s, (l1, c1)))
    return out
if __name__ == '__main__':
    v = sys.argv[1]; N = int(sys.argv[2])
    o = Oracle(v)
    libdir = os.path.dirname(PY[v])[:-4] + '/lib/python' + v
    files = sorted(glob.glob(libdir + '/*.py') + glob.glob(libdir + '/*/*.py'))
    random.Random(1).shuffle(files)
    bad = collections.Counter(); n = 0
    for f in files[:N]:
        try: src = open(f, encoding='utf-8').read()
        except Exception: continue
        if not src.isascii(): continue
        r = o.ask(op='tokenize', src=src)
        if 'error' in r: continue
        n += 1
        a = parso_sig(src, v); b = cpy_sig(r['tokens'], src)
        if a != b:
            for i, (x, y) in enumerate(zip(a, b)):
                if x != y:
                    bad[(x[0], y[0])] += 1
                    if bad[(x[0], y[0])] <= 2: print(v, f, x, y)
                    break
            else: print(v, f, 'len', len(a), len(b), a[-3:], b[-3:])
    print(v, 'files', n, 'bad', sum(bad.values()), dict(bad))
