import ast, sys, glob, io, tokenize, random, collections
import parso
g = parso.load_grammar(version='3.12')
from p14 import has_err
bad = collections.Counter(); ex = {}
def rep(k, f, d):
    bad[k] += 1
    if k not in ex: ex[k] = (f, d)
def own_scope_nodes(fn, types):
    out = []
    def rec(n):
        for c in ast.iter_child_nodes(n):
            if isinstance(c, types): out.append(c)
            if isinstance(c, (ast.FunctionDef, ast.AsyncFunctionDef, ast.ClassDef, ast.Lambda)): continue
            rec(c)
    for part in fn.body if isinstance(fn.body, list) else [fn.body]: 
        if isinstance(part, types): out.append(part)
        if not isinstance(part, (ast.FunctionDef, ast.AsyncFunctionDef, ast.ClassDef, ast.Lambda)): rec(part)
    return out
def stmt_scope(body_owner):
    # functions/classes/imports directly in scope via statements only
    out = {'f': [], 'c': [], 'i': []}
    def rec(stmts):
        for s in stmts:
            if isinstance(s, (ast.FunctionDef, ast.AsyncFunctionDef)): out['f'].append((s.name, s.lineno))
            elif isinstance(s, ast.ClassDef): out['c'].append((s.name, s.lineno))
            elif isinstance(s, (ast.Import, ast.ImportFrom)): out['i'].append(s.lineno)
            else:
                for fld in ('body', 'orelse', 'finalbody'):
                    rec(getattr(s, fld, []) or [])
                for h in getattr(s, 'handlers', []) or []: rec(h.body)
                for c in getattr(s, 'cases', []) or []: rec(c.body)
    rec(body_owner.body)
    return out
files = sorted(glob.glob('/root/.pyenv/versions/3.12.1/lib/python3.12/**/*.py', recursive=True))
random.Random(4).shuffle(files); n = 0
for f in files[:int(sys.argv[1])]:
    try: src = open(f, encoding='utf-8').read()
    except Exception: continue
    if '\r' in src or '\f' in src: continue
    try: tree = ast.parse(src)
    except Exception: continue
    m = g.parse(src)
    if has_err(m): continue
    n += 1
    # map parso scopes by (line of def keyword)
    pf = {}; pc = {}
    def walk(node):
        if node.type == 'funcdef': pf[node.children[0].start_pos[0]] = node
        if node.type == 'classdef': pc[node.children[0].start_pos[0]] = node
        for c in getattr(node, 'children', ()): walk(c)
    walk(m)
    def cmp_scope(a, p, what):
        exp = stmt_scope(a)
        gf = sorted((x.name.value, x.children[0].start_pos[0]) for x in p.iter_funcdefs())
        gc = sorted((x.name.value, x.children[0].start_pos[0]) for x in p.iter_classdefs())
        gi = sorted(x.start_pos[0] for x in p.iter_imports())
        if gf != sorted(exp['f']): rep('scope funcs', f, (what, gf[:3], sorted(exp['f'])[:3]))
        if gc != sorted(exp['c']): rep('scope classes', f, (what, gc[:3], sorted(exp['c'])[:3]))
        if gi != sorted(exp['i']): rep('scope imports', f, (what, gi[:5], sorted(exp['i'])[:5]))
    cmp_scope(tree, m, 'module')
    # module docstring
    def doc_check(a, p, what):
        b0 = a.body[0] if a.body else None
        has = isinstance(b0, ast.Expr) and isinstance(b0.value, ast.Constant) and isinstance(b0.value.value, str)
        d = p.get_doc_node()
        if has:
            seg = ast.get_source_segment(src, b0.value)
            toks = [t for t in tokenize.generate_tokens(io.StringIO(seg + '\n').readline) if t.type == tokenize.STRING]
            single = len(toks) == 1 and toks[0].string == seg
            if single and (d is None or d.value != seg): rep('doc missing', f, (what, a.lineno if hasattr(a, 'lineno') else 0, seg[:30]))
        else:
            if d is not None: rep('doc spurious', f, (what, getattr(a, 'lineno', 0), d.value[:30]))
    doc_check(tree, m, 'module')
    for a in ast.walk(tree):
        if isinstance(a, (ast.FunctionDef, ast.AsyncFunctionDef)):
            p = pf.get(a.lineno)
            if p is None: rep('func not found', f, a.lineno); continue
            cmp_scope(a, p, 'func'); doc_check(a, p, 'func')
            args = a.args
            exp = []
            pos = args.posonlyargs + args.args
            nd = len(args.defaults)
            for i, x in enumerate(pos): exp.append((x.arg, 0, i >= len(pos) - nd, x.annotation is not None))
            if args.vararg: exp.append((args.vararg.arg, 1, False, args.vararg.annotation is not None))
            for x, dflt in zip(args.kwonlyargs, args.kw_defaults): exp.append((x.arg, 0, dflt is not None, x.annotation is not None))
            if args.kwarg: exp.append((args.kwarg.arg, 2, False, args.kwarg.annotation is not None))
            got = [(q.name.value, q.star_count, q.default is not None, q.annotation is not None) for q in p.get_params()]
            if got != exp: rep('params', f, (a.lineno, got, exp))
            if (p.annotation is not None) != (a.returns is not None): rep('return annotation', f, a.lineno)
            isgen = bool(own_scope_nodes(a, (ast.Yield, ast.YieldFrom)))
            if p.is_generator() != isgen: rep('is_generator', f, (a.lineno, p.is_generator(), isgen))
            r1 = sorted(x.lineno for x in own_scope_nodes(a, ast.Return)); r2 = sorted(x.start_pos[0] for x in p.iter_return_stmts())
            if r1 != r2: rep('returns', f, (a.lineno, r1[:5], r2[:5]))
            r1 = sorted(x.lineno for x in own_scope_nodes(a, ast.Raise)); r2 = sorted(x.start_pos[0] for x in p.iter_raise_stmts())
            if r1 != r2: rep('raises', f, (a.lineno, r1[:5], r2[:5]))
        elif isinstance(a, ast.ClassDef):
            p = pc.get(a.lineno)
            if p is None: rep('class not found', f, a.lineno); continue
            cmp_scope(a, p, 'class'); doc_check(a, p, 'class')
print(n, dict(bad))
for k, v in ex.items(): print(k, v)
