import sys, random, base64, collections
from parso.utils import split_lines, python_bytes_to_unicode
import parso
from orc import Oracle
rnd = random.Random(int(sys.argv[1])); N = int(sys.argv[2])
alphabet = ['a', 'b', ' ', '\n', '\r', '\r\n', '\f', '\v', '\x1c', '\x1d', '\x1e', '\x85', ' ', ' ', '\\', '#', 'é']
def ref_split(s, keep):
    out = []; cur = ''; i = 0
    while i < len(s):
        c = s[i]
        if c == '\r' and s[i+1:i+2] == '\n': end = '\r\n'; i += 2
        elif c in '\r\n': end = c; i += 1
        else: cur += c; i += 1; continue
        out.append(cur + (end if keep else '')); cur = ''
    out.append(cur)
    return out
bad = collections.Counter()
for it in range(N):
    s = ''.join(rnd.choice(alphabet) for _ in range(rnd.randint(0, 12)))
    for keep in (True, False):
        try: got = split_lines(s, keepends=keep)
        except Exception as e: bad['raise'] += 1; print('raise', repr(s), e); continue
        if got != ref_split(s, keep):
            bad['split %s' % keep] += 1
            if bad['split %s' % keep] < 4: print(repr(s), keep, got, ref_split(s, keep))
print(bad)
# decoding
o = Oracle('3.12')
pieces = [b'# -*- coding: latin-1 -*-', b'# coding=utf-8', b'#coding:cp1252', b'x = 1', b'encoding=name', b'# vim: set fileencoding=iso-8859-15 :', b'\xef\xbb\xbf', b'\n', b'\r\n', b'\r', b'\xe9', b'\xc3\xa9', b'#!/usr/bin/python', b'"""coding: ascii"""', b' ', b'# coding: foo-8', b'coding: utf8', b'#', b'\x0c', b'# coding: utf-8-sig', b'# coding: UTF_8', b'# coding:latin1']
bad = collections.Counter()
for it in range(N):
    data = b''.join(rnd.choice(pieces) for _ in range(rnd.randint(0, 6)))
    r = o.ask(op='detect', data=base64.b64encode(data).decode())
    try: got = python_bytes_to_unicode(data); exc = None
    except Exception as e: got = None; exc = type(e).__name__
    if 'text' in r:
        exp = r['text']
        if data.startswith(b'\xef\xbb\xbf') and not exp.startswith('﻿'): exp = '﻿' + exp
        if got != exp:
            k = 'decode mismatch exc=%s' % exc
            bad[k] += 1
            if bad[k] < 4: print(k, data, r.get('encoding'), repr(got)[:60])
    else:
        bad['cpython cannot: ' + str(r.get('error', r.get('decode_error')))[:30]] += 0
print(bad)
