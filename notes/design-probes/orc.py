import subprocess, json, glob, os
PY = {}
for d in glob.glob('/root/.pyenv/versions/3.*'):
    v = os.path.basename(d); mm = '.'.join(v.split('.')[:2]); PY[mm] = d + '/bin/python'
class Oracle:
    def __init__(self, v):
        self.p = subprocess.Popen([PY[v], '-X', 'utf8' if v != '3.6' else 'dev', os.path.join(os.path.dirname(__file__), 'oracle_srv.py')], stdin=subprocess.PIPE, stdout=subprocess.PIPE, env={'PYTHONIOENCODING': 'utf-8', 'PYTHONHASHSEED': '0', 'LC_ALL': 'C.UTF-8'})
    def ask(self, **req):
        self.p.stdin.write((json.dumps(req) + '\n').encode('utf-8')); self.p.stdin.flush()
        return json.loads(self.p.stdout.readline().decode('utf-8'))
if __name__ == '__main__':
    for v in sorted(PY, key=lambda s: int(s.split('.')[1])):
        o = Oracle(v); print(v, o.ask(op='ping'), o.ask(op='compile', src='x = 1\nprint(f"{x!r}")\n'), len(o.ask(op='tokenize', src='x = 1\n')['tokens']))
