from p10 import *
cases = ["if x:\n\ta\n        b\n", "\fx = 1\n", "if x:\n  a\n\f  b\n", "x = 1_0\n", "x = 0_7\n", "x = 1__0\n", "x = 1if y else 2\n", "x = 0x1for\n", "x = 1.e5j\n", "x = 0o17\n", "x = 00\n", "x = 0_0\n", "x = 1e1_0\n", "x = .5_5\n", "x = 5._5\n", "a\\\n  = 1\n", "x = (1,\n# c\n 2)\n", "x = rb'a' Rb'b' bR'c' f'd' rf'e' Fr'g'\n", "x = u'a' U'b'\n", "x = ur'a'\n", "x = b'a' 'b'\n", "a @= b\n", "a <> b\n", "a != b\n", "a -> b\n", "a ... b\n", "a .. b\n", "a := b\n", "if x:\n  a\n b\n", "  x\n", "x = '''a\nb'''\n", "x = 'a\\\nb'\n", "x = $\n", "x = ?\n", "x = `a`\n", "x = a!b\n", "é = 1\n", "x = 1\r\ny = 2\r\n", "x = 1\ry = 2\r", "x = 1 # c", "x = 1\n\n\n", "\n\nx\n", "#!shebang\nx\n", "if x:\n    a\n  # c\n    b\n", "if x:\n    a\n\n  \n    b\nc\n", "def f():\n\tx\n\ty\n", "def f():\n \tx\n \ty\n", "x = f'{a!r:>{w}}' f\"{b}\"\n", "x = f'{{}}'\n", "x = f'''a\n{b}\nc'''\n", "x = 1\\\n", "x = 0xg\n", "x=1;y=2;\n", "class A: pass\n", "x = a if b else c\n", "x = 1e+5\n", "x = 1_000.000_1e-1_0j\n", "x = 0B1 + 0O7 + 0Xf\n", "x = 1J\n", "async def f(): await x\n", "async = 1\n", "x = a<<=b>>=c**=d//=e\n", "x = a.b.c\n", "x = ...\n", "x = a....b\n", "x = 1.\n", "x = 1..real\n", "x = 1.real\n", "\x0c\nx\n", "x = (\f1)\n", "if x:\n  a\n  \fb\n", "x = '\\''\n", "x = \"\\\\\"\n", "x = r'\\'\n", "x = '''\\''''\n", "#\fx\ny\n", "x = 1 if 2else 3\n", "x = 0in y\n", "x = 0x_f\n", "x = 0_x\n", "x = 1_\n", "@a.b\ndef f(): pass\n", "x[a:b, c:d] = 1\n", "lambda: (yield)\n", "x = a if b else(c)\n", "print(*a, **b)\n", "x = {**a, 'b': 1}\n", "x = not-1\n", "x = a and not b or c\n", "x = ~-+1\n", "x = a is not b not in c\n", "del x, y\n", "with a as b, c as d: pass\n", "try:\n  pass\nexcept E as e:\n  pass\nfinally:\n  pass\n", "x = 1;\n", "x = '\\N{DASH}'\n", "x = b'\\xff'\n", "x: int = 1\n", "def f(a, /, b, *, c): pass\n", "x = [i for i in y if i]\n", "x = (yield)\n", "x = 0777\n", "x = 1L\n", "x = 09\n", "x = 1_000_\n"]
for v in ['3.6', '3.8', '3.11', '3.12', '3.13']:
    o = Oracle(v); bad = 0
    for src in cases:
        r = o.ask(op='tokenize', src=src)
        if 'error' in r or any(t[0] == 'ERRORTOKEN' for t in r['tokens']): continue
        a = parso_sig(src, v); b = cpy_sig(r['tokens'], src)
        if a != b:
            bad += 1
            for x, y in zip(a, b):
                if x != y: print(v, repr(src), 'parso', x, 'cpy', y, 'compile:', o.ask(op='compile', src=src).get('error')); break
            else: print(v, repr(src), 'len', a[-2:], b[-2:], 'compile:', o.ask(op='compile', src=src).get('error'))
    print(v, 'bad', bad)
