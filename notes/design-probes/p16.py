import os, tempfile, shutil, time, pickle, glob, traceback
import parso
from parso import cache
from parso.file_io import FileIO
g = parso.load_grammar(version='3.9')
d = tempfile.mkdtemp(); cdir = os.path.join(d, 'cache'); os.mkdir(cdir)
p = os.path.join(d, 'a.py')
def write(s, t):
    open(p, 'w').write(s); os.utime(p, (t, t))
T = time.time() - 1000
# --- stale on concurrent save
class RacyIO(FileIO):
    def read(self):
        data = super().read()
        global T
        T += 10; write('y = 2\n', T)   # editor saves right after we read
        return data
write('x = 1\n', T)
cache.parser_cache.clear()
m = g.parse(file_io=RacyIO(p), cache=True, cache_path=cdir)
print('first:', repr(m.get_code()))
m2 = g.parse(path=p, cache=True, cache_path=cdir)
print('second (file now y=2):', repr(m2.get_code()))
cache.parser_cache.clear()
m3 = g.parse(path=p, cache=True, cache_path=cdir)
print('after restart:', repr(m3.get_code()))
# --- truncation
cache.parser_cache.clear(); shutil.rmtree(cdir); os.mkdir(cdir)
T += 10; write('def f():\n    return 1\n', T)
g.parse(path=p, cache=True, cache_path=cdir)
pk = glob.glob(cdir + '/*/*.pkl')[0]
data = open(pk, 'rb').read()
res = {}
for cut in range(0, len(data)):
    open(pk, 'wb').write(data[:cut])
    cache.parser_cache.clear()
    try:
        m = g.parse(path=p, cache=True, cache_path=cdir)
        r = 'ok' if m.get_code() == 'def f():\n    return 1\n' else 'WRONG'
    except Exception as e:
        r = type(e).__name__
    res[r] = res.get(r, 0) + 1
print(len(data), res)
shutil.rmtree(d)
