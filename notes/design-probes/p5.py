import sys, traceback
from p1common import *
from conform import Conf
confs = {v: Conf(v) for v in VERSIONS}
INDENT = object(); DEDENT = object()
def is_err(c): return c.type in ('error_node', 'error_leaf')
def flatten_params(children):
    out = []
    for c in children:
        if c.type == 'param': out += c.children
        else: out.append(c)
    return out
def at_eof_no_newline(c):
    last = c.get_last_leaf()
    if last.type == 'newline': return False
    nl = last.get_next_leaf()
    while nl is not None and nl.type == 'error_leaf' and nl.token_type in ('INDENT','DEDENT','ERROR_DEDENT'): nl = nl.get_next_leaf()
    if nl is not None and nl.type == 'endmarker': return True
    p = c.parent
    return p is not None and p.type == 'suite' and p.children[-1] is c
def stmt_pseudo(cf, ch, pseudo, sym, extra=None):
    if extra is not None: pseudo = extra
    for c in ch:
        if c in pseudo or is_err(c): continue
        if c.type != 'simple_stmt' and at_eof_no_newline(c) and cf.sym_matches('small_stmt', c):
            pseudo[c] = sym
def check_node(cf, node, code, v, m):
    t = node.type
    ch = list(node.children)
    if not ch: return 'empty node %s' % t
    if t == 'error_node': return None
    if t == 'param': return None
    pseudo = {}; extra = {}
    if t == 'file_input':
        ch = [c for c in ch if not is_err(c)]
        stmt_pseudo(cf, ch, pseudo, 'stmt', extra)
        return None if cf.accepts('file_input', ch, pseudo, extra) else 'file_input mismatch'
    if t == 'suite':
        for c in ch:
            if is_err(c): pseudo[c] = 'stmt'
        I, D = parso.python.tree.Operator('I', (0,0)), parso.python.tree.Operator('D', (0,0))
        pseudo[I] = 'INDENT'; pseudo[D] = 'DEDENT'
        stmt_pseudo(cf, ch, pseudo, 'stmt', extra)
        ch = [ch[0], I] + ch[1:] + [D]
        return None if cf.accepts('suite', ch, pseudo, extra) else 'suite mismatch %r' % node.children
    rules = [t]
    if t == 'lambdef': rules = ['lambdef'] + (['lambdef_nocond'] if 'lambdef_nocond' in cf.nfa else [])
    if t not in cf.nfa: return 'unknown node type %s' % t
    if t == 'parameters':
        ch = flatten_params(ch)
        if ch[0] != '(' or ch[-1] != ')': return 'parameters brackets'
        inner = ch[1:-1]
        if inner and not cf.accepts('typedargslist', inner): return 'parameters mismatch: %r' % inner
        return None
    if t == 'lambdef':
        ch = flatten_params(ch)
        if ch[0] != 'lambda' or ch[-2] != ':': return 'lambdef shape'
        inner = ch[1:-2]
        if inner and not cf.accepts('varargslist', inner): return 'lambdef params mismatch: %r' % inner
        if not (cf.sym_matches('test', ch[-1]) or ('test_nocond' in cf.nfa and cf.sym_matches('test_nocond', ch[-1]))): return 'lambdef body mismatch'
        return None
    for c in ch:
        if is_err(c): pseudo[c] = 'suite'
    stmt_pseudo(cf, ch, pseudo, 'suite', extra)
    if t == 'simple_stmt' and ch[-1].type != 'newline':
        nl = node.get_last_leaf().get_next_leaf()
        while nl is not None and nl.type == 'error_leaf' and nl.token_type in ('INDENT','DEDENT','ERROR_DEDENT'): nl = nl.get_next_leaf()
        if not at_eof_no_newline(node):
            return 'simple_stmt without newline not at EOF'
        N = parso.python.tree.Operator('N', (0,0)); pseudo[N] = 'NEWLINE'; ch = ch + [N]
    if any(cf.accepts(r, ch, pseudo, extra) for r in rules): return None
    return '%s mismatch: %r' % (t, node.children)
def walk(n):
    yield n
    for c in getattr(n, 'children', ()):
        if c.type != 'error_node':
            yield from walk(c)
if __name__ == '__main__':
    rnd = random.Random(int(sys.argv[1])); N = int(sys.argv[2])
    import glob
    srcs = [open(f, encoding='utf-8').read() for f in sorted(glob.glob('/repo/parso/**/*.py', recursive=True)) + sorted(glob.glob('/repo/test/*.py'))]
    nodes = 0
    for it in range(N):
        v = rnd.choice(VERSIONS)
        if it % 3 == 0:
            code = gen(rnd, 40)
        else:
            s = rnd.choice(srcs); lines = split_lines(s, keepends=True); a = rnd.randrange(len(lines)); lines = lines[a:a+rnd.randint(1,25)]
            for _ in range(rnd.randint(0,3)):
                i = rnd.randrange(len(lines)); col = rnd.randint(0, len(lines[i])); lines[i] = lines[i][:col] + rnd.choice(frags) + lines[i][col:]
            code = ''.join(lines)
        m = parso.parse(code, version=v)
        for n in walk(m):
            if hasattr(n, 'children'):
                nodes += 1
                r = check_node(confs[v], n, code, v, m)
                if r:
                    report('C05 ' + r.split(':')[0].split('[')[0], code, v, r[:300])
    print('nodes', nodes)
    summary()
