"""Independent EBNF reader: grammar text -> per-rule NFA (Thompson), no parso code used."""
import re, glob, os
TOK = re.compile(r"\s*(?:(#[^\n]*)|([A-Za-z_][A-Za-z_0-9]*)|('(?:[^'\\]|\\.)*'|\"(?:[^\"\\]|\\.)*\")|([()\[\]|*+:])|(\n))", re.S)
def read_rules(text):
    # join logical lines: a rule starts at column 0 with NAME ':'; continuation lines are inside brackets or indented
    rules = {}
    order = []
    cur = None
    depth = 0
    buf = []
    for line in text.split('\n'):
        stripped = line.split('#')[0] if "'#'" not in line else line
        if not stripped.strip():
            continue
        m = re.match(r'([A-Za-z_][A-Za-z_0-9]*)\s*:(.*)$', stripped)
        if m and depth == 0 and not line[0].isspace():
            if cur: rules[cur] = ' '.join(buf)
            cur = m.group(1); order.append(cur); buf = [m.group(2)]
        else:
            buf.append(stripped)
        # depth tracking ignoring quoted strings
        s = re.sub(r"'[^']*'|\"[^\"]*\"", '', stripped)
        depth += s.count('(') + s.count('[') - s.count(')') - s.count(']')
    if cur: rules[cur] = ' '.join(buf)
    return order, rules
def tokenize_rhs(s):
    out = []
    for m in re.finditer(r"\s*([A-Za-z_][A-Za-z_0-9]*|'[^']*'|\"[^\"]*\"|[()\[\]|*+])", s):
        out.append(m.group(1))
    return out
class P:
    def __init__(self, toks): self.t = toks; self.i = 0
    def peek(self): return self.t[self.i] if self.i < len(self.t) else None
    def next(self): x = self.t[self.i]; self.i += 1; return x
    def rhs(self):
        alts = [self.items()]
        while self.peek() == '|':
            self.next(); alts.append(self.items())
        return ('alt', alts) if len(alts) > 1 else alts[0]
    def items(self):
        seq = []
        while self.peek() is not None and self.peek() not in (')', ']', '|'):
            seq.append(self.item())
        assert seq
        return ('seq', seq) if len(seq) > 1 else seq[0]
    def item(self):
        if self.peek() == '[':
            self.next(); r = self.rhs(); assert self.next() == ']'
            return ('opt', r)
        if self.peek() == '(':
            self.next(); a = self.rhs(); assert self.next() == ')'
        else:
            a = ('sym', self.next())
        if self.peek() == '*': self.next(); return ('star', a)
        if self.peek() == '+': self.next(); return ('plus', a)
        return a
def parse_grammar(text):
    order, rules = read_rules(text)
    asts = {}
    for name in order:
        p = P(tokenize_rhs(rules[name])); asts[name] = p.rhs(); assert p.peek() is None, (name, p.t[p.i:])
    return order, asts
# AST -> NFA: states ints; eps dict; trans list of (s, sym, t)
class NFA:
    def __init__(self): self.n = 0; self.eps = {}; self.tr = {}
    def new(self): self.n += 1; return self.n - 1
    def e(self, a, b): self.eps.setdefault(a, set()).add(b)
    def t(self, a, sym, b): self.tr.setdefault(a, []).append((sym, b))
    def build(self, ast):
        k = ast[0]
        if k == 'sym':
            a, b = self.new(), self.new(); self.t(a, ast[1], b); return a, b
        if k == 'seq':
            first = None; prev = None
            for x in ast[1]:
                a, b = self.build(x)
                if first is None: first = a
                else: self.e(prev, a)
                prev = b
            return first, prev
        if k == 'alt':
            a, b = self.new(), self.new()
            for x in ast[1]:
                c, d = self.build(x); self.e(a, c); self.e(d, b)
            return a, b
        if k == 'opt':
            c, d = self.build(ast[1]); a, b = self.new(), self.new(); self.e(a, c); self.e(d, b); self.e(a, b); return a, b
        if k == 'star':
            c, d = self.build(ast[1]); a, b = self.new(), self.new(); self.e(a, c); self.e(d, b); self.e(a, b); self.e(d, c); return a, b
        if k == 'plus':
            c, d = self.build(ast[1]); a, b = self.new(), self.new(); self.e(a, c); self.e(d, b); self.e(d, c); return a, b
        raise ValueError(k)
    def closure(self, S):
        S = set(S); st = list(S)
        while st:
            x = st.pop()
            for y in self.eps.get(x, ()):
                if y not in S: S.add(y); st.append(y)
        return frozenset(S)
def rule_nfa(ast):
    n = NFA(); a, b = n.build(ast); return n, a, b
def to_dfa(ast):
    n, a, b = rule_nfa(ast)
    start = n.closure([a]); states = {start: 0}; todo = [start]; trans = {}; final = set()
    while todo:
        S = todo.pop()
        if b in S: final.add(states[S])
        by = {}
        for s in S:
            for sym, t in n.tr.get(s, ()):
                by.setdefault(sym, set()).add(t)
        for sym, T in by.items():
            C = n.closure(T)
            if C not in states: states[C] = len(states); todo.append(C)
            trans[(states[S], sym)] = states[C]
    return 0, trans, final, len(states)
if __name__ == '__main__':
    for f in sorted(glob.glob('/repo/parso/python/grammar*.txt')):
        order, asts = parse_grammar(open(f).read())
        print(os.path.basename(f), len(order))
