import parso, sys
print(sys.getrecursionlimit())
def nest(kind, n):
    if kind == 'paren': return '(' * n + 'x' + ')' * n + '\n'
    if kind == 'brack': return '[' * n + 'x' + ']' * n + '\n'
    if kind == 'brace': return '{' * n + 'x' + '}' * n + '\n'
    if kind == 'unclosed': return '(' * n + 'x\n'
    if kind == 'indent': return ''.join(' ' * i + 'if x:\n' for i in range(n)) + ' ' * n + 'pass\n'
    if kind == 'indent_err': return ''.join(' ' * i + 'x\n' for i in range(n))
    if kind == 'unary': return '-' * n + 'x\n'
    if kind == 'not': return 'not ' * n + 'x\n'
    if kind == 'lambda': return 'lambda: ' * n + 'x\n'
    if kind == 'call': return 'f(' * n + ')' * n + '\n'
    if kind == 'fstr': return 'f"{' * min(n, 50) + 'x' + '}"' * min(n, 50) + '\n'
    if kind == 'ternary': return 'x if y else ' * n + 'z\n'
    if kind == 'attr': return 'x' + '.y' * n + '\n'
    if kind == 'power': return 'x' + '**y' * n + '\n'
    if kind == 'def': return ''.join(' ' * i + 'def f():\n' for i in range(n)) + ' ' * n + 'pass\n'
    if kind == 'dictcomp': return '{x:' * n + 'y' + '}' * n + '\n'
for kind in ['paren','brack','brace','unclosed','indent','indent_err','unary','not','lambda','call','fstr','ternary','attr','power','def','dictcomp']:
    for n in (100, 101, 150, 300):
        code = nest(kind, n)
        res = []
        for v in ('3.6', '3.12'):
            g = parso.load_grammar(version=v)
            try:
                m = g.parse(code); assert m.get_code() == code
                r = 'ok'
                try: list(g.iter_errors(m))
                except RecursionError: r += '/errRec'
                except Exception as e: r += '/err:' + type(e).__name__
                try: m.dump()
                except RecursionError: r += '/dumpRec'
            except RecursionError: r = 'RecursionError'
            except Exception as e: r = type(e).__name__
            res.append(r)
        print(kind, n, res)
