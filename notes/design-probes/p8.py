import glob, os, ast as pyast
from ebnf import parse_grammar, to_dfa
from parso.pgen2 import generate_grammar
from parso.pgen2.generator import ReservedString
from parso.python.token import PythonTokenTypes
tot_rules = tot_states = 0
for f in sorted(glob.glob('/repo/parso/python/grammar*.txt')):
    text = open(f).read()
    order, asts = parse_grammar(text)
    g = generate_grammar(text, PythonTokenTypes)
    assert list(g.nonterminal_to_dfas) == order
    mydfa = {}
    for name in order:
        s0, trans, final, n = to_dfa(asts[name])
        mydfa[name] = (trans, final)
        dfas = g.nonterminal_to_dfas[name]
        # bisimulation
        seen = {}; todo = [(0, dfas[0])]
        while todo:
            a, b = todo.pop()
            if a in seen:
                assert seen[a] is b, ('not deterministic mapping (pgen merged non-equivalent?)', name)
                continue
            seen[a] = b
            assert (a in final) == b.is_final, (name, a)
            mine = {sym: t for (s, sym), t in trans.items() if s == a}
            assert set(mine) == set(b.arcs), (name, set(mine) ^ set(b.arcs))
            for sym, t in mine.items():
                todo.append((t, b.arcs[sym]))
        assert set(map(id, seen.values())) == set(map(id, dfas)), (name, 'unreachable pgen states')
        tot_rules += 1; tot_states += len(dfas)
    # first sets (independent)
    def term(sym):
        if sym[0] in '"\'':
            return ('str', pyast.literal_eval(sym))
        return ('tok', sym)
    first = {}
    def calc(name, stack=()):
        if name in first: return first[name]
        assert name not in stack, 'left recursion'
        trans, final = mydfa[name]
        res = {}
        for (s, sym), t in trans.items():
            if s != 0: continue
            if sym in mydfa:
                for tk, chain in calc(sym, stack + (name,)).items():
                    assert tk not in res, ('conflict', name, tk)
                    res[tk] = [(name, t)] + chain
            else:
                assert term(sym) not in res
                res[term(sym)] = [(name, t)]
        first[name] = res
        return res
    for name in order: calc(name)
    # check transitions per state
    for name in order:
        trans, final = mydfa[name]
        dfas = g.nonterminal_to_dfas[name]
        # map my states to pgen states again
        seen = {}; todo = [(0, dfas[0])]
        while todo:
            a, b = todo.pop()
            if a in seen: continue
            seen[a] = b
            for (s, sym), t in trans.items():
                if s == a: todo.append((t, b.arcs[sym]))
        for a, b in seen.items():
            exp = {}
            for (s, sym), t in trans.items():
                if s != a: continue
                if sym in mydfa:
                    for tk, chain in first[sym].items():
                        assert tk not in exp, ('conflict', name, tk)
                        exp[tk] = (t, chain)
                else:
                    assert term(sym) not in exp
                    exp[term(sym)] = (t, [])
            got = {}
            for tr, plan in b.transitions.items():
                key = ('str', tr.value) if isinstance(tr, ReservedString) else ('tok', tr.name)
                assert key not in got
                got[key] = plan
            assert set(got) == set(exp), (name, a, set(got) ^ set(exp))
            for key, plan in got.items():
                t, chain = exp[key]
                assert plan.next_dfa is seen[t] if True else 0, (name, key)
                assert [d.from_rule for d in plan.dfa_pushes] == [c[0] for c in chain], (name, key)
                # each pushed dfa is the state after consuming in that rule
                for d, (rn, st) in zip(plan.dfa_pushes, chain):
                    # map st of rule rn to pgen state
                    pass
    print(os.path.basename(f), 'ok')
print(tot_rules, tot_states)
