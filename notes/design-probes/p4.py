import sys, traceback, os, glob
from p1common import *
from parso.python.diff import _assert_valid_graph, _assert_nodes_are_equal
from parso import cache
rnd = random.Random(int(sys.argv[1])); N = int(sys.argv[2])
files = sorted(glob.glob('/repo/parso/**/*.py', recursive=True)) + sorted(glob.glob('/repo/test/normalizer_issue_files/*.py'))
srcs = []
for f in files:
    try: srcs.append(open(f, encoding='utf-8').read())
    except Exception: pass
def snippet():
    s = rnd.choice(srcs)
    lines = split_lines(s, keepends=True)
    a = rnd.randrange(len(lines)); n = rnd.randint(1, 30)
    return lines[a:a+n]
def mutate(lines):
    lines = list(lines)
    for _ in range(rnd.randint(1,5)):
        r = rnd.randint(1,4)
        if not lines: lines=['']
        if r == 1 and len(lines) > 1:
            del lines[rnd.randrange(len(lines))]
        elif r == 2:
            lines.insert(rnd.randint(0, len(lines)), lines[rnd.randrange(len(lines))])
        else:
            i = rnd.randrange(len(lines)); line = lines[i]
            col = rnd.randint(0, len(line))
            rs = ''.join(rnd.choice(frags) for _ in range(rnd.randint(1,3)))
            if rnd.random() > .5: line = line[:col] + rs + line[col:]
            else: line = ' ' * rnd.randint(0, 12) + rs + '\n'
            lines[i] = line
    # re-split
    return split_lines(''.join(lines), keepends=True)
for it in range(N):
    v = rnd.choice(VERSIONS)
    g = parso.load_grammar(version=v)
    path = '/nonexistent/p%d.py' % it
    lines = snippet()
    hist = []
    try:
        for step in range(rnd.randint(2, 8)):
            code = ''.join(lines)
            hist.append(code)
            m = g.parse(code, diff_cache=True, path=path)
            if m.get_code() != code:
                report('C04 code', code, v, repr(hist)); break
            fresh = g.parse(code)
            try:
                _assert_valid_graph(m)
                _assert_nodes_are_equal(m, fresh)
            except AssertionError as e:
                report('C04 tree differs', '\x00'.join(hist), v, str(e)[:300]); break
            lines = mutate(lines)
    except Exception as e:
        report('C04 raise %s' % type(e).__name__, '\x00'.join(hist), v, traceback.format_exc()[-400:])
    cache.parser_cache.get(g._hashed, {}).pop(path, None)
    from pathlib import Path
    cache.parser_cache.get(g._hashed, {}).pop(Path(path), None)
summary()
