import sys, traceback, glob, pickle, re
from p1common import *
import parso.python.tree as pt, parso.tree as t0
rnd = random.Random(int(sys.argv[1])); N = int(sys.argv[2])
srcs = [open(f, encoding='utf-8', errors='replace').read() for f in sorted(glob.glob('/repo/parso/**/*.py', recursive=True)) + sorted(glob.glob('/repo/test/**/*.py', recursive=True))]
def site(tb):
    fr = traceback.extract_tb(tb)
    for f in reversed(fr):
        if '/parso/' in f.filename: return '%s:%d %s' % (f.filename.split('/parso/')[-1], f.lineno, f.name)
    return '?'
ns = {}
for mod in (pt, t0):
    for k in dir(mod): ns[k] = getattr(mod, k)
for it in range(N):
    v = rnd.choice(VERSIONS)
    k = it % 3
    if k == 0: code = gen(rnd, 20)
    else:
        s = rnd.choice(srcs); lines = split_lines(s, keepends=True); a = rnd.randrange(len(lines)); lines = lines[a:a+rnd.randint(1,40)]
        code = ''.join(lines)
        if k == 2:
            for _ in range(rnd.randint(1,3)):
                i = rnd.randrange(len(code)+1); code = code[:i] + rnd.choice(frags) + code[i:]
    g = parso.load_grammar(version=v)
    m = g.parse(code)
    before = m.dump()
    if re.search(r'#[^\r\n]*\f', code): continue
    # C13
    try:
        iss = list(g.iter_errors(m))
    except Exception as e:
        report('C13 raise %s @ %s' % (type(e).__name__, site(e.__traceback__)), code, v); iss = None
    if iss is not None:
        if m.dump() != before: report('C13 mutates', code, v)
        lines_seen = set()
        for i in iss:
            if i.code not in (901, 903): report('C13 code', code, v)
            if i.code == 901 and not i.message.startswith('SyntaxError: '): report('C13 msg', code, v, i.message)
            if i.code == 903 and not i.message.startswith('IndentationError: '): report('C13 msg', code, v, i.message)
            if not ((1,0) <= i.start_pos <= i.end_pos <= m.end_pos): report('C13 pos range', code, v, repr((i.start_pos, i.end_pos, m.end_pos, i.message)))
            if i.start_pos[0] in lines_seen: report('C13 two per line', code, v)
            lines_seen.add(i.start_pos[0])
        # coverage
        def rec(n, inerr):
            if n.type == 'error_leaf' and not inerr:
                if n.token_type in ('INDENT', 'ERROR_DEDENT'):
                    ln = n.get_next_leaf().start_pos[0]
                else: ln = n.start_pos[0]
                if ln not in lines_seen: report('C13 error leaf line unreported', code, v, repr(n))
            if n.type == 'error_node' and not inerr:
                nl = n.get_next_leaf()
                fs = g.version_info >= (3,9) and any(c.type=='fstring_start' for c in n.children) and n.start_pos[0] in lines_seen
                if nl.start_pos[0] not in lines_seen and not fs: report('C13 error node unreported', code, v, repr((n, nl, [(i.start_pos, i.message) for i in iss])))
            for c in getattr(n, 'children', ()): rec(c, inerr or n.type == 'error_node')
        rec(m, False)
        iss2 = list(g.iter_errors(m))
        if [(i.code, i.message, i.start_pos, i.end_pos) for i in iss] != [(i.code, i.message, i.start_pos, i.end_pos) for i in iss2]: report('C13 nondeterministic', code, v)
    # C20
    try:
        ps = g._get_normalizer_issues(m)
    except RecursionError: ps = None
    except Exception as e:
        report('C20 raise %s @ %s' % (type(e).__name__, site(e.__traceback__)), code, v); ps = None
    if ps is not None:
        if m.dump() != before: report('C20 mutates', code, v)
        seen = set()
        for i in ps:
            if not isinstance(i.code, int) or not isinstance(i.message, str): report('C20 malformed', code, v)
            if i.start_pos[1] < 0 or i.end_pos[1] < 0: report('C20 negative col', code, v, repr((i.code, i.start_pos)))
            if not ((1,0) <= i.start_pos <= i.end_pos <= m.end_pos): report('C20 pos range code %s' % i.code, code, v, repr((i.code, i.start_pos, i.end_pos, m.end_pos)))
            if (i.code, i.start_pos) in seen: report('C20 dup', code, v)
            seen.add((i.code, i.start_pos))
        if not any(n.type in ('error_node','error_leaf') for n in [m] + [x for x in leaves(m)] ) :
            pass
    # C19
    try:
        m2 = pickle.loads(pickle.dumps(m))
        if m2.dump() != before or m2.get_code() != code: report('C19 pickle differs', code, v)
        for ind in (4, None, '\t', 0):
            m3 = eval(m.dump(indent=ind), dict(ns))
            if m3.dump() != before or m3.get_code() != code: report('C19 dump eval differs', code, v)
        if g.refactor(m, {}) != code: report('C19 refactor empty', code, v)
    except RecursionError: pass
    except Exception as e:
        report('C19 raise %s @ %s' % (type(e).__name__, site(e.__traceback__)), code, v, traceback.format_exc()[-300:])
summary()
