import parso
from orc import Oracle
cases = ["def f():\n    import os.path\n    global path\n", "x = lambda: (yield)\n", "def f():\n    return (i async for i in x)\n", "def f():\n    return (i for i in x if await y)\n", "x = f'{v:{w:0}.{p:1}}'\n", "x = rf'\\{y}'\n", "def f():\n    from a.b import c\n    global b\n", "def f():\n    x.path = 1\n    global path\n", "def f():\n    g(path=1)\n    global path\n", "class A:\n    x = 1\n    global x\n", "def f(*, a): pass\n", "def f():\n    nonlocal_ = 1\n", "x = [*a, *b]\n", "print(*a, b)\n", "f(**a, b=1)\n", "a, *b = c\n", "del (a, b)\n", "del (a), [b]\n", "x = (yield)\n" , "def f():\n    x = yield\n", "async def f():\n    async with a as b, c as d: pass\n", "async def f():\n    return [i async for i in x]\n", "def f():\n    [(yield) for i in x]\n", "(a := 1)\n", "f(a := 1)\n", "[a := 1, b]\n", "def f(a=(b := 1)): pass\n", "with (a): pass\n", "x = 1 if 2 else 3\n", "for x in *a, b: pass\n", "def f(): return *a, b\n", "def f(): yield *a, b\n", "x[a, *b]\n", "x: (yield)\n", "def f():\n    x: int\n    global y\n", "try:\n    pass\nexcept* E:\n    pass\n", "f'{x!r:>{w}}'\n", "f'{x=}'\n", "f'{x:{y}}'\n", "f'{x:{y:{z}}}'\n", "f'''{\nx}'''\n", "f'{a[\"b\"]}'\n", "class A(x for x in y): pass\n", "from __future__ import annotations\n", "def f():\n    from . import *\n", "a = b = c\n", "a += b\n", "(a) += b\n", "a.b += 1\n", "a[1] += 1\n", "[a, b] += c\n", "@a.b[1]\ndef f(): pass\n", "@(yield)\ndef f(): pass\n", "while 1:\n    try: continue\n    finally: pass\n", "while 1:\n    try: pass\n    finally: continue\n", "for i in x:\n    def f(): break\n", "nonlocal x\n", "def f():\n    def g():\n        nonlocal x\n    x = 1\n", "def f(x):\n    def g():\n        nonlocal x\n", "class A:\n    def g():\n        nonlocal x\n", "def f():\n    class A:\n        nonlocal x\n    x = 1\n"]
for v in ['3.6', '3.8', '3.10', '3.12', '3.13']:
    o = Oracle(v); g = parso.load_grammar(version=v)
    for src in cases:
        ok = o.ask(op='compile', src=src)['ok']
        if not ok: continue
        m = g.parse(src)
        iss = [(i.start_pos, i.message) for i in g.iter_errors(m)]
        if iss: print(v, repr(src), iss)
