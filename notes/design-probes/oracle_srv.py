# runs under CPython 3.6 .. 3.13; line-delimited JSON requests on stdin
import sys, json, tokenize, io, ast, token, warnings
warnings.simplefilter('ignore')
def do_tokenize(src):
    out = []
    try:
        for t in tokenize.generate_tokens(io.StringIO(src).readline):
            out.append([token.tok_name[t.type], t.string, t.start[0], t.start[1], t.end[0], t.end[1]])
    except Exception as e:
        return {'error': type(e).__name__ + ': ' + str(e)[:100], 'tokens': out}
    return {'tokens': out}
def do_compile(src):
    try:
        compile(src, '<x>', 'exec', dont_inherit=True)
        return {'ok': True}
    except (SyntaxError, ValueError, OverflowError, RecursionError, MemoryError) as e:
        return {'ok': False, 'error': type(e).__name__ + ': ' + str(e)[:200], 'lineno': getattr(e, 'lineno', None), 'offset': getattr(e, 'offset', None)}
def do_detect(b):
    import base64
    data = base64.b64decode(b)
    try:
        enc, lines = tokenize.detect_encoding(io.BytesIO(data).readline)
    except Exception as e:
        return {'error': type(e).__name__ + ': ' + str(e)[:100]}
    try:
        text = data.decode(enc)
    except Exception as e:
        return {'encoding': enc, 'decode_error': type(e).__name__}
    return {'encoding': enc, 'text': text}
for line in sys.stdin:
    req = json.loads(line)
    op = req['op']
    try:
        if op == 'tokenize': res = do_tokenize(req['src'])
        elif op == 'compile': res = do_compile(req['src'])
        elif op == 'detect': res = do_detect(req['data'])
        elif op == 'ping': res = {'version': list(sys.version_info[:3])}
        else: res = {'error': 'unknown op'}
    except Exception as e:
        res = {'harness_error': type(e).__name__ + ': ' + str(e)[:200]}
    sys.stdout.write(json.dumps(res) + '\n'); sys.stdout.flush()
