import sys, random, ast as pyast, collections
from ebnf import parse_grammar
import parso
from parso.python.tokenize import tokenize
VERS = {'3.6':'36','3.7':'37','3.8':'38','3.9':'39','3.10':'310','3.11':'311','3.12':'312','3.13':'313','3.14':'314'}
class Gen:
    def __init__(self, v):
        self.v = v
        self.order, self.asts = parse_grammar(open('/repo/parso/python/grammar%s.txt' % VERS[v]).read())
        self.minh = {}; self.cur = None
        # fixed point min height of rules
        INF = 10**9
        h = {r: INF for r in self.order}
        def ah(a):
            k = a[0]
            if k == 'sym':
                s = a[1]
                if s in h: return h[s] + 1 if h[s] < INF else INF
                if s in ('fstring',): return INF
                return 0
            if k == 'seq': return max(ah(x) for x in a[1])
            if k == 'alt': return min(ah(x) for x in a[1] if not self.banned(x))
            if k in ('opt', 'star'): return 0
            if k == 'plus': return ah(a[1])
        self.ah = ah
        ch = True
        while ch:
            ch = False
            for r in self.order:
                if r == 'fstring': continue
                self.cur = r
                n = ah(self.asts[r])
                if n < h[r]: h[r] = n; ch = True
        self.h = h
    def banned(self, a):
        return a == ('sym', 'NEWLINE') and self.cur in ('stmt', 'file_input') or a == ('sym', "'<>'") or a == ('sym', 'fstring')
    def derive(self, rule, rnd, budget):
        self.cur = rule
        kids = self.expand(self.asts[rule], rnd, budget, rule)
        return (rule, kids)
    def expand(self, a, rnd, budget, rule):
        k = a[0]
        self.cur = rule
        if k == 'sym':
            s = a[1]
            if s in self.asts: 
                r = self.derive(s, rnd, budget - 1); self.cur = rule; return [r]
            return [('tok', s)]
        if k == 'seq':
            out = []
            for x in a[1]: out += self.expand(x, rnd, budget, rule)
            return out
        if k == 'alt':
            alts = [x for x in a[1] if not self.banned(x)]
            if budget <= 0:
                m = min(self.ah(x) for x in alts); alts = [x for x in alts if self.ah(x) == m]
            return self.expand(rnd.choice(alts), rnd, budget, rule)
        if k == 'opt':
            if self.banned(a[1]): return []
            if budget > 0 and rnd.random() < 0.5 and self.ah(a[1]) < 10**9: return self.expand(a[1], rnd, budget - 1, rule)
            return []
        if k in ('star', 'plus'):
            if self.banned(a[1]): return []
            n = (1 if k == 'plus' else 0)
            if budget > 0 and self.ah(a[1]) < 10**9: n += rnd.choice([0, 0, 1, 1, 2])
            if rule == 'eval_input' and a[1] == ('sym', 'NEWLINE'): n = min(n, 1)
            out = []
            for _ in range(n): out += self.expand(a[1], rnd, budget - 1, rule)
            return out
def terminals(t, out):
    if t[0] == 'tok': out.append(t[1])
    else:
        for k in t[1]: terminals(k, out)
def render(toks, rnd):
    s = ''; indent = 0; bol = True; ni = 0
    for t in toks:
        if t == 'INDENT': indent += 1; continue
        if t == 'DEDENT': indent -= 1; continue
        if t == 'ENDMARKER': continue
        if t == 'NEWLINE': s += '\n'; bol = True; continue
        if bol: s += '  ' * indent; bol = False
        else: s += ' '
        if t == 'NAME': ni += 1; s += rnd.choice(['x', 'foo', 'n%d' % ni, 'é'])
        elif t == 'NUMBER': s += rnd.choice(['1', '0x1f', '1_0.5e3', '2j'])
        elif t == 'STRING': s += rnd.choice(["'s'", 'b"b"', "r'''r'''", 'u"u"'])
        else: s += pyast.literal_eval(t)
    return s
def collapse(t, gen):
    """expected tree as nested (type, [children]) / ('leaf', kind, value) following conventions"""
    if t[0] == 'tok': return t
    kids = [collapse(k, gen) for k in t[1]]
    rule = t[0]
    if rule == 'suite': kids = [k for k in kids if k not in (('tok', 'INDENT'), ('tok', 'DEDENT'))]
    if rule in ('parameters', 'lambdef', 'lambdef_nocond'):
        nk = []
        for k in kids:
            if k[0] in ('typedargslist', 'varargslist'): nk += k[1]
            else: nk.append(k)
        kids = nk
    if rule == 'lambdef_nocond': rule = 'lambdef'
    if len(kids) == 1 and rule not in ('file_input',) : return kids[0]
    return (rule, kids)
def actual(n):
    if hasattr(n, 'children'):
        kids = []
        for c in n.children:
            if c.type == 'param': kids += [actual(x) for x in c.children]
            else: kids.append(actual(c))
        return (n.type, kids)
    return ('leaf', n.type, n.value)
def match(exp, act, toks_iter):
    if exp[0] == 'tok':
        return act[0] == 'leaf'
    return act[0] == exp[0] and len(act[1]) == len(exp[1]) and all(match(e, a, toks_iter) for e, a in zip(exp[1], act[1]))
if __name__ == '__main__':
    rnd = random.Random(int(sys.argv[1])); N = int(sys.argv[2])
    stats = collections.Counter(); rules = collections.Counter()
    gens = {v: Gen(v) for v in VERS}
    for it in range(N):
        v = rnd.choice(list(VERS)); g = gens[v]
        start = 'file_input' if rnd.random() < .8 else 'eval_input'
        d = g.derive(start, rnd, rnd.randint(2, 9))
        toks = []; terminals(d, toks)
        text = render(toks, rnd)
        gr = parso.load_grammar(version=v)
        try:
            m = gr.parse(text, error_recovery=False, start_symbol=start)
        except parso.ParserSyntaxError as e:
            stats['REJECTED'] += 1
            if stats['REJECTED'] <= 5: print('REJECT', v, start, repr(text), e.error_leaf)
            continue
        exp = collapse(d, g); act = actual(m)
        if exp[0] != start: exp = (start, [exp])
        if not match(exp, act, None):
            stats['TREE-DIFF'] += 1
            if stats['TREE-DIFF'] <= 3: print('DIFF', v, repr(text), exp, act)
        stats['ok'] += 1
        def cnt(t):
            if t[0] != 'tok':
                rules[t[0]] += 1
                for k in t[1]: cnt(k)
        cnt(d)
    print(stats); print(len(rules), 'rules used')
