# feasibility probe for a line-granular deterministic scheduler
import sys, threading, random, time
import parso
ROOT = '/repo/parso'
class Sched:
    def __init__(self, n, schedule):
        self.sems = [threading.Semaphore(0) for _ in range(n)]
        self.alive = [True] * n
        self.cur = 0
        self.schedule = schedule; self.si = 0
        self.run_left = self.next_run()
        self.switches = 0; self.steps = 0
        self.tls = threading.local()
    def next_run(self):
        if self.si < len(self.schedule):
            r = self.schedule[self.si]; self.si += 1; return r
        return 10**9
    def tracer(self, frame, event, arg):
        if not frame.f_code.co_filename.startswith(ROOT): return None
        return self.local
    def local(self, frame, event, arg):
        if event == 'line': self.point()
        return self.local
    def point(self):
        tid = self.tls.tid
        self.steps += 1
        self.run_left -= 1
        if self.run_left <= 0:
            others = [i for i, a in enumerate(self.alive) if a and i != tid]
            self.run_left = self.next_run()
            if others:
                nxt = others[self.run_left % len(others)]
                self.switches += 1
                self.cur = nxt
                self.sems[nxt].release()
                self.sems[tid].acquire()
    def worker(self, tid, fn, out):
        self.tls.tid = tid
        self.sems[tid].acquire()
        sys.settrace(self.tracer)
        try: out[tid] = fn()
        except BaseException as e: out[tid] = ('EXC', repr(e))
        finally:
            sys.settrace(None)
            self.alive[tid] = False
            others = [i for i, a in enumerate(self.alive) if a]
            if others:
                self.cur = others[0]; self.sems[others[0]].release()
    def run(self, fns):
        out = [None] * len(fns)
        ts = [threading.Thread(target=self.worker, args=(i, f, out)) for i, f in enumerate(fns)]
        for t in ts: t.start()
        self.sems[0].release()
        for t in ts: t.join()
        return out
if __name__ == '__main__':
    g = parso.load_grammar(version='3.10')
    texts = ['def f(a, b=1):\n    return a + b\n', 'x = [i for i in y if i]\nclass A: pass\n', 'for x in (1,\n 2): $\n', 'import a.b as c\n']
    seq = [g.parse(t).dump() for t in texts]
    rnd = random.Random(1)
    t0 = time.time(); tot_sw = 0
    for it in range(50):
        schedule = [rnd.randint(1, 200) for _ in range(100)]
        s = Sched(len(texts), schedule)
        fns = [ (lambda t=t: g.parse(t).dump()) for t in texts]
        out = s.run(fns)
        assert out == seq, out
        tot_sw += s.switches
    print('50 schedules ok', time.time() - t0, 's; switches', tot_sw, 'steps last', s.steps)
