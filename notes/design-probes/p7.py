import sys, traceback, glob
from p1common import *
rnd = random.Random(int(sys.argv[1])); N = int(sys.argv[2])
srcs = [open(f, encoding='utf-8').read() for f in sorted(glob.glob('/repo/parso/**/*.py', recursive=True)) + sorted(glob.glob('/repo/test/*.py'))]
def first_error(m):
    for l in leaves(m):
        if l.type == 'error_leaf': return ('leaf', l)
        # first leaf of an error node?
        n = l
        while n.parent is not None:
            if n.parent.type == 'error_node' and n.parent.children[0] is n and True:
                pass
            n = n.parent
    return None
def first_err(m):
    # in-order traversal: first error_leaf, or leaf following first error_node
    def rec(n):
        if n.type == 'error_leaf': return n
        if n.type == 'error_node':
            return n.get_next_leaf()
        for c in getattr(n, 'children', ()):
            r = rec(c)
            if r is not None: return r
        return None
    cands = []
    def rec2(n):
        if n.type == 'error_leaf': cands.append(n)
        if n.type == 'error_node':
            nl = n.get_next_leaf()
            if nl is not None: cands.append(nl)
        for c in getattr(n, 'children', ()): rec2(c)
    rec2(m)
    if not cands: return None
    return min(cands, key=lambda l: l.start_pos)
stats = collections.Counter()
for it in range(N):
    v = rnd.choice(VERSIONS)
    k = it % 3
    if k == 0:
        code = gen(rnd, 12)
    else:
        s = rnd.choice(srcs); lines = split_lines(s, keepends=True); a = rnd.randrange(len(lines)); lines = lines[a:a+rnd.randint(1,12)]
        # dedent
        import textwrap
        code = textwrap.dedent(''.join(lines))
        if k == 2:
            i = rnd.randrange(len(code)+1); code = code[:i] + rnd.choice(frags) + code[i:]
    g = parso.load_grammar(version=v)
    m = g.parse(code)
    fe = first_err(m)
    try:
        s = g.parse(code, error_recovery=False)
        exc = None
    except parso.ParserSyntaxError as e:
        exc = e
    except Exception as e:
        report('C07 strict raises other %s' % type(e).__name__, code, v, traceback.format_exc()[-300:]); continue
    if exc is None:
        stats['valid'] += 1
        if fe is not None:
            report('C07 strict ok but recovery has error', code, v, repr(fe)); continue
        if s.dump() != m.dump():
            report('C07 trees differ', code, v); continue
    else:
        stats['invalid'] += 1
        if fe is None:
            report('C07 strict raises but recovery clean', code, v, repr(exc.error_leaf)); continue
        el = exc.error_leaf
        if el.value == '' and el.token_type.name in ('INDENT','DEDENT','ERROR_DEDENT'):
            if el.start_pos != fe.start_pos: report('C07 error position differs (indent tok)', code, v, '%r vs %r' % (el, fe))
        elif (el.value, el.start_pos) != (fe.value, fe.start_pos):
            report('C07 error position differs', code, v, '%r vs %r' % (el, fe))
print(stats)
summary()
