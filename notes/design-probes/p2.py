import sys, re, traceback
from p1common import *
from parso.python.tokenize import tokenize, PythonTokenTypes as T
from parso.utils import parse_version_string
rnd = random.Random(int(sys.argv[1])); N = int(sys.argv[2])
PURE = re.compile(r'﻿?(?:[ \t\f]+|#[^\r\n]*|\\(?:\r\n|\r|\n)|\r\n|\r|\n)*\Z')
skipped = 0
for it in range(N):
    code = gen(rnd)
    v = rnd.choice(VERSIONS)
    vi = parse_version_string(v)
    try:
        toks = list(tokenize(code, version_info=vi))
    except Exception as e:
        report('C09 tokenize raise %s' % type(e).__name__, code, v, traceback.format_exc()[-300:]); continue
    if ''.join(t.prefix + t.string for t in toks) != code:
        report('C09 token tiling', code, v); continue
    if [t.type for t in toks].count(T.ENDMARKER) != 1 or toks[-1].type != T.ENDMARKER:
        report('C09 endmarker', code, v); continue
    ind = sum(1 for t in toks if t.type == T.INDENT); ded = sum(1 for t in toks if t.type == T.DEDENT)
    if ind != ded:
        report('C09 indent balance', code, v, '%d %d' % (ind, ded)); continue
    depth = 0
    for t in toks:
        if t.type == T.INDENT: depth += 1
        if t.type == T.DEDENT:
            depth -= 1
            if depth < 0: report('C09 negative depth', code, v); break
    pos = (1,0)
    for i, t in enumerate(toks):
        pre = t.prefix
        if i == 0 or all(x.type in (T.INDENT, T.DEDENT, T.ERROR_DEDENT) for x in toks[:i]):
            if pre.startswith('﻿'): pre = pre[1:]
        if t.type in (T.INDENT, T.DEDENT, T.ERROR_DEDENT):
            if t.string or t.prefix: report('C09 nonempty indent tok', code, v)
            continue
        p = true_advance(pos, pre)
        if t.start_pos != p:
            report('C09 tok start', code, v, '%r exp %r' % (t, p)); break
        pos = true_advance(p, t.string)
        if t.end_pos != pos:
            pass
    for i, t in enumerate(toks):
        if not PURE.match(t.prefix):
            report('C09 impure prefix', code, v, repr(t)); break
        if False or ('﻿' in t.prefix and i != 0 and not all(x.type in (T.INDENT,T.DEDENT,T.ERROR_DEDENT) for x in toks[:i])):
            report('C09 bom not leading', code, v, repr(t)); break
    m = parso.parse(code, version=v)
    for l in leaves(m):
        if '﻿' in l.prefix: skipped += 1; continue
        if re.search(r'#[^\r\n]*\f', l.prefix):
            skipped += 1
            continue
        try:
            parts = list(l._split_prefix())
        except Exception as e:
            report('C09 split_prefix raise %s' % type(e).__name__, code, v, repr(l.prefix)); break
        if ''.join(p.spacing + p.value if p.type != 'spacing' else p.value for p in parts) != l.prefix:
            report('C09 parts tile', code, v, repr((l.prefix, parts))); break
        pos = l.get_start_pos_of_prefix()
        bad = False
        for p in parts:
            sp = p.spacing if p.type != 'spacing' else ''
            exp = true_advance(pos, sp)
            if p.start_pos != exp:
                report('C09 part start', code, v, repr((l.prefix, parts, p, exp))); bad = True; break
            pos = true_advance(exp, p.value if p.value != '﻿' else '')
            if p.end_pos != pos:
                report('C09 part end', code, v, repr((l.prefix, parts, p, pos))); bad = True; break
        if bad: break
        if not bad and pos != l.start_pos and not (l.type=='error_leaf' and l.token_type in ('INDENT','DEDENT','ERROR_DEDENT')):
            report('C09 parts end != leaf start', code, v, repr((l.prefix, parts, l.start_pos, pos)))
print('skipped', skipped)
summary()
