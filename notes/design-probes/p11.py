import sys, glob
from p1common import *
rnd = random.Random(int(sys.argv[1])); N = int(sys.argv[2])
for it in range(N):
    code = gen(rnd, 18); v = rnd.choice(VERSIONS)
    m = parso.parse(code, version=v)
    ls = list(leaves(m))
    # structure
    def rec(n, acc):
        if hasattr(n, 'children'):
            for c in n.children:
                if c.parent is not n: report('C11 parent', code, v)
                rec(c, acc)
        else: acc.append(n)
    acc = []; rec(m, acc)
    if [id(x) for x in acc] != [id(x) for x in ls]: report('C11 next_leaf enumeration', code, v); continue
    prev = None
    for l in ls:
        if l.get_previous_leaf() is not prev: report('C11 prev leaf', code, v)
        if l.get_root_node() is not m: report('C11 root', code, v)
        prev = l
    if m.get_first_leaf() is not ls[0] or m.get_last_leaf() is not ls[-1]: report('C11 first/last', code, v)
    def rec2(n):
        if hasattr(n, 'children'):
            for i, c in enumerate(n.children):
                ns = c.get_next_sibling(); ps = c.get_previous_sibling()
                if ns is not (n.children[i+1] if i+1 < len(n.children) else None): report('C11 next sibling', code, v)
                if ps is not (n.children[i-1] if i > 0 else None): report('C11 prev sibling', code, v)
                rec2(c)
            if n.get_first_leaf() is not n.children[0].get_first_leaf(): report('C11 node first', code, v)
    rec2(m)
    # position lookup
    lines = split_lines(code)
    endpos = m.end_pos
    for li, line in enumerate(lines, 1):
        for col in range(0, len(line) + 2):
            pos = (li, col)
            for inc in (True, False):
                try: got = m.get_leaf_for_position(pos, include_prefixes=inc); exc = None
                except ValueError: got = None; exc = 'ValueError'
                except Exception as e: report('C11 lookup raises %s' % type(e).__name__, code, v, repr(pos)); continue
                if not ((1,0) <= pos <= endpos):
                    if exc != 'ValueError': report('C11 outside not rejected', code, v, repr(pos))
                    continue
                if exc: report('C11 inside rejected', code, v, repr(pos)); continue
                exp = next(l for l in ls if l.end_pos >= pos)
                if not inc and pos < exp.start_pos: exp = None
                if got is not exp: report('C11 lookup inc=%s' % inc, code, v, repr((pos, got, exp)))
summary()
