import ast as pyast, os
from ebnf import parse_grammar, rule_nfa
import parso
class Conf:
    def __init__(self, version):
        self.g = parso.load_grammar(version=version)
        vi = self.g.version_info
        text = open('/repo/parso/python/grammar%d%d.txt' % (vi.major, vi.minor)).read()
        self.order, self.asts = parse_grammar(text)
        self.nfa = {n: rule_nfa(a) for n, a in self.asts.items()}
        self.reserved = set()
        for n, (nf, a, b) in self.nfa.items():
            for s, lst in nf.tr.items():
                for sym, t in lst:
                    if sym[0] in '\'"': self.reserved.add(pyast.literal_eval(sym))
        # unit closure: for nonterminal S, which symbols X satisfy [X] in L(S)
        self.unit = {}
        for n in self.order:
            self.unit[n] = self._single(n)
        # transitive
        changed = True
        self.reach = {n: set(u) | {n} for n, u in self.unit.items()}
        while changed:
            changed = False
            for n in self.order:
                for x in list(self.reach[n]):
                    if x in self.reach:
                        new = self.reach[x] - self.reach[n]
                        if new: self.reach[n] |= new; changed = True
    def _single(self, name):
        nf, a, b = self.nfa[name]
        res = set()
        S = nf.closure([a])
        for s in S:
            for sym, t in nf.tr.get(s, ()):
                if b in nf.closure([t]): res.add(sym)
        return res
    def leaf_sym(self, leaf):
        t = leaf.type
        if t in ('keyword', 'operator'):
            return repr(leaf.value)  # compare by literal value
        return {'name': 'NAME', 'number': 'NUMBER', 'string': 'STRING', 'newline': 'NEWLINE', 'endmarker': 'ENDMARKER',
                'fstring_start': 'FSTRING_START', 'fstring_string': 'FSTRING_STRING', 'fstring_end': 'FSTRING_END'}.get(t, '?' + t)
    def sym_matches(self, sym, child):
        """does grammar symbol sym derive exactly child (with single-child collapsing)?"""
        if hasattr(child, 'children'):
            ctype = child.type
            if ctype == 'lambdef':
                cands = {'lambdef', 'lambdef_nocond'}
            else:
                cands = {ctype}
            if sym in self.reach:
                return bool(cands & self.reach[sym])
            return False
        else:
            ls = self.leaf_sym(child)
            def eq(s):
                if s[0] in '\'"':
                    return child.type in ('keyword', 'operator') and pyast.literal_eval(s) == child.value
                return s == ls
            if sym in self.reach:
                return any(eq(s) for s in self.reach[sym] if s not in self.reach)
            return eq(sym)
    def accepts(self, rule, children, pseudo=(), extra=()):
        nf, a, b = self.nfa[rule]
        S = nf.closure([a])
        for c in children:
            T = set()
            for s in S:
                for sym, t in nf.tr.get(s, ()):
                    if c in pseudo:
                        if sym == pseudo[c]: T.add(t)
                    elif self.sym_matches(sym, c): T.add(t)
                    elif c in extra and sym == extra[c]: T.add(t)
            S = nf.closure(T)
            if not S: return False
        return b in S
