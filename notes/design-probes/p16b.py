import os, tempfile, shutil, time, glob, random, sys
import parso
from parso import cache
rnd = random.Random(int(sys.argv[1])); N = int(sys.argv[2])
VERS = ['3.8', '3.12']
CONT = ['x = 1\n', 'y = 2\n', 'def f():\n    return 1\n', 'x = (\n', '', 'class A:\n  pass\n']
viol = 0; nontriv = 0
for it in range(N):
    d = tempfile.mkdtemp(prefix='c16-')
    dirs = [os.path.join(d, 'c1'), os.path.join(d, 'c2')]
    for x in dirs: os.mkdir(x)
    files = [os.path.join(d, 'a.py'), os.path.join(d, 'b.py')]
    clock = [int(time.time()) - 10**6]
    model = {}
    stamps = {}
    def tick(): clock[0] += 2; return clock[0]
    def write(f, c):
        open(f, 'w', newline='').write(c); t = tick(); os.utime(f, (t, t)); model[f] = c
    def restamp():
        for pk in glob.glob(d + '/c*/*/*.pkl'):
            st = os.stat(pk)
            key = (st.st_mtime_ns, st.st_size, st.st_ino)
            if stamps.get(pk) != key:
                t = tick(); os.utime(pk, (time.time(), t)); st = os.stat(pk); stamps[pk] = (st.st_mtime_ns, st.st_size, st.st_ino)
    cache.parser_cache.clear()
    for f in files: write(f, rnd.choice(CONT))
    hist = []
    wrote_after_cached = False; cached = set()
    for step in range(rnd.randint(3, 14)):
        op = rnd.choice(['write', 'parse', 'parse', 'parse', 'drop', 'touch', 'rmdir'])
        f = rnd.choice(files)
        if op == 'write':
            write(f, rnd.choice(CONT)); hist.append(('write', os.path.basename(f), model[f]))
            if f in cached: wrote_after_cached = True
        elif op == 'touch':
            t = tick(); os.utime(f, (t, t)); hist.append(('touch', os.path.basename(f)))
        elif op == 'drop': cache.parser_cache.clear(); hist.append(('drop',))
        elif op == 'rmdir':
            x = rnd.choice(dirs); shutil.rmtree(x); os.mkdir(x); hist.append(('rmdir', os.path.basename(x)))
            for pk in list(stamps):
                if pk.startswith(x): del stamps[pk]
        else:
            v = rnd.choice(VERS); cd = rnd.choice(dirs); mode = rnd.choice(['cache', 'cache+diff', 'none', 'diff'])
            g = parso.load_grammar(version=v)
            kw = dict(cache=mode.startswith('cache'), diff_cache='diff' in mode)
            m = g.parse(path=f, cache_path=cd, **kw)
            restamp()
            hist.append(('parse', os.path.basename(f), v, os.path.basename(cd), mode))
            exp = g.parse(model[f])
            if kw['cache']: cached.add(f)
            if m.dump() != exp.dump():
                viol += 1
                if viol <= 3: print('VIOL', hist, repr(m.get_code()), repr(model[f]))
                break
    if wrote_after_cached: nontriv += 1
    shutil.rmtree(d)
print('histories', N, 'nontrivial', nontriv, 'violations', viol)
