import parso, random, collections
from parso.utils import split_lines
VERSIONS = ['3.6','3.7','3.8','3.9','3.10','3.11','3.12','3.13','3.14']
frags = list(parso.load_grammar(version='3.12')._pgen_grammar.reserved_syntax_strings.keys())
frags = [f + (' ' if f.isalpha() else '') for f in frags]
frags += [' ', '\t', '\n', '\r', '\r\n', '\f', 'f"', 'F"""', "fr'", "RF'''", '"', '"""', "'", "'''", ';', ' foo ', '\\', '#', '\\\n', 'x', '1', '0x', '1e', '{', '}', '{{', '}}', '!r', ':', '﻿', '\x0b', '\x1c', '\x85', ' ', 'é', '²', '$', '?', '    ', '  ', 'b"', "rb'", '1_0', '...', '->', ':=', '\x00', '#\f', '\\N{DASH}', '\xa0', '\x1f', '\\\r', '\\\r\n', '# c', '\t ']
def gen(rnd, maxn=25):
    n = rnd.randint(0, maxn)
    return ''.join(rnd.choice(frags) for _ in range(n))
def leaves(node):
    l = node.get_first_leaf()
    while l is not None:
        yield l
        l = l.get_next_leaf()
def true_advance(pos, text):
    line, col = pos
    i = 0
    while i < len(text):
        c = text[i]
        if c == '\r':
            if i+1 < len(text) and text[i+1] == '\n':
                i += 1
            line += 1; col = 0
        elif c == '\n':
            line += 1; col = 0
        else:
            col += 1
        i += 1
    return (line, col)
bugs = collections.Counter()
examples = {}
def report(kind, code, v, extra=''):
    bugs[kind] += 1
    if kind not in examples or len(code) < len(examples[kind][0]):
        examples[kind] = (code, v, extra)
def summary():
    print(bugs)
    for k, (c, v, x) in examples.items():
        print('==', k, v, repr(c), x)
