import sys, glob, os, random, collections
from orc import Oracle, PY
import parso
def has_err(m):
    st = [m]
    while st:
        n = st.pop()
        if n.type in ('error_node', 'error_leaf'): return True
        st.extend(getattr(n, 'children', ()))
    return False
if __name__ == '__main__':
    v = sys.argv[1]; N = int(sys.argv[2])
    o = Oracle(v); o38 = Oracle('3.8')
    libdir = os.path.dirname(PY[v])[:-4] + '/lib/python' + v
    files = sorted(glob.glob(libdir + '/**/*.py', recursive=True))
    random.Random(2).shuffle(files)
    g = parso.load_grammar(version=v)
    c = collections.Counter()
    for f in files[:N]:
        try: src = open(f, encoding='utf-8').read()
        except Exception: continue
        if '\f' in src: c['ff'] += 1
        if not o.ask(op='compile', src=src)['ok']: c['invalid'] += 1; continue
        common = o38.ask(op='compile', src=src)['ok']
        m = g.parse(src)
        err = has_err(m)
        iss = list(g.iter_errors(m))
        c['valid'] += 1
        if common:
            c['common'] += 1
            if err or iss:
                c['A-viol'] += 1; print('A', v, f, [(i.start_pos, i.message) for i in iss][:3])
        elif not err:
            c['noncommon-clean'] += 1
            if iss: c['B-viol'] += 1; print('B', v, f, [(i.start_pos, i.message) for i in iss][:3])
        else: c['noncommon-err'] += 1
    print(v, dict(c))
