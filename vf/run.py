"""CLI:  python -m vf.run <Cxx> [--tier quick|thorough] [--replay file]"""
import argparse
import os
import sys
import traceback


def main():
    ap = argparse.ArgumentParser()
    ap.add_argument('prop')
    ap.add_argument('--tier', default=os.environ.get('VERIF_TIER', 'quick'), choices=['quick', 'thorough'])
    ap.add_argument('--replay')
    a = ap.parse_args()
    try:
        seed = int(os.environ.get('VERIF_SEED', '1') or '1')
    except ValueError:
        seed = 1
    try:
        from . import engine
        if a.replay:
            return engine.run_replay(a.prop.upper(), a.replay)
        return engine.run_check(a.prop.upper(), a.tier, seed)
    except SystemExit:
        raise
    except BaseException:
        sys.stderr.write('HARNESS ERROR:\n' + traceback.format_exc())
        return 2


if __name__ == '__main__':
    sys.exit(main())
