"""Property-based verification framework for davidhalter/parso (see /verif/DESIGN.md)."""
