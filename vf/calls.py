"""Call descriptors shared by the C18 check and its pristine reference server.
A call is [kind, version, text]; the result is a JSON-serialisable value."""
import parso
from parso.python.tokenize import tokenize
from parso.utils import parse_version_string

KINDS = ['parse', 'parse_strict', 'errors', 'pep8', 'tokenize', 'refactor', 'load']


def run_call(call):
    kind, v, text = call
    if kind == 'all':
        # every kind of call on one text (light sibling histories of C18)
        return [run_call([k, v, text]) for k in KINDS if k != 'load']
    try:
        if kind == 'tokenize':
            return [[t.type.name, t.string, list(t.start_pos), t.prefix] for t in tokenize(text, version_info=parse_version_string(v))]
        g = parso.load_grammar(version=v)
        if kind == 'load':
            return [len(g._pgen_grammar.nonterminal_to_dfas), sorted(g._pgen_grammar.reserved_syntax_strings)[:5]]
        if kind == 'parse':
            return g.parse(text).dump(indent=None)
        if kind == 'parse_strict':
            return g.parse(text, error_recovery=False).dump(indent=None)
        m = g.parse(text)
        if kind == 'errors':
            return [[i.code, i.message, list(i.start_pos), list(i.end_pos)] for i in g.iter_errors(m)]
        if kind == 'pep8':
            return [[i.code, i.message, list(i.start_pos), list(i.end_pos)] for i in g._get_normalizer_issues(m)]
        if kind == 'refactor':
            leaves = []
            l = m.get_first_leaf()
            while l is not None:
                leaves.append(l)
                l = l.get_next_leaf()
            mapping = {l: '<%d>' % i for i, l in enumerate(leaves) if i % 3 == 1}
            return g.refactor(m, mapping)
        raise ValueError(kind)
    except RecursionError:
        return ['EXC', 'RecursionError']
    except Exception as e:
        return ['EXC', type(e).__name__, str(e)[:200]]
