"""Campaign engine: sharded Hypothesis generation, collect-then-bucket failure handling,
own ddmin shrinking, replay files, known-findings matching, evidence writing.

Exit codes: 0 held / only listed findings; 1 VIOLATION; 2 harness error."""
import json
import multiprocessing
import os
import sys
import time
import traceback
from collections import Counter

from .common import VERIF, digest, short

KNOWN_FILE = os.path.join(VERIF, 'known_findings.json')
EVIDENCE_DIR = os.path.join(VERIF, 'evidence')
REPLAY_DIR = os.path.join(VERIF, 'replays')
NSHARDS = int(os.environ.get('VERIF_SHARDS', '16'))


class Outcome:
    """Result of checking one case."""
    __slots__ = ('fail', 'nontrivial', 'classes', 'excluded', 'key', 'units')

    def __init__(self, fail=None, nontrivial=False, classes=(), excluded=None, key=None, units=1):
        self.fail = fail              # None | (signature, detail)
        self.nontrivial = nontrivial
        self.classes = classes
        self.excluded = excluded      # None | reason string (trigger of a listed finding; case not judged)
        self.key = key                # bytes used for distinctness (default: digest of the case)
        self.units = units            # how many elementary evaluations this case contained


class Prop:
    """Base class of a property check."""
    id = None
    level = 'exploration'
    rule = ''
    assumptions = ()
    budgets = {'quick': 16000, 'thorough': 400000}
    time_caps = {'quick': 150, 'thorough': 1500}    # only stops generating; never a violation
    min_nontrivial_fraction = 0.02
    shrink_fields = ('code',)     # str fields (line+char ddmin) / list fields (element ddmin)

    def strategy(self, tier):
        raise NotImplementedError

    def check(self, case):
        raise NotImplementedError

    def enumerate(self, tier, seed):
        """Deterministic extra cases (exhaustive parts). Yields cases."""
        return ()

    def extra_evidence(self, tier):
        return {}

    def setup_shard(self, tier, seed, shard):
        pass

    def teardown_shard(self):
        pass

    def sample_repr(self, case):
        return {k: (short(v, 300) if isinstance(v, str) else v) for k, v in case.items()}


def load_prop(pid):
    import importlib
    mod = importlib.import_module('vf.props.' + pid.lower())
    return mod.PROP


# ---------------------------------------------------------------------------------------------
# known findings


def load_known(pid):
    with open(KNOWN_FILE) as f:
        data = json.load(f)
    return [k for k in data.get('findings', []) if k['property'] == pid]


def match_known(known, sig):
    for k in known:
        if k['signature'] == sig:
            return k
    return None


# ---------------------------------------------------------------------------------------------
# shard worker


class _Stop(BaseException):
    pass


def safe_check(prop, case):
    """Run prop.check.  The property modules convert exceptions of the code under test themselves; what still
    escapes is classified here: an exception that was raised *below* the last harness frame inside the library (e.g.
    load_grammar failing because of leaked tokenizer state) is the library's failure and becomes a crash-signature
    failure of the case; anything else is a harness error and propagates."""
    try:
        return prop.check(case)
    except RecursionError:
        return Outcome(excluded='recursion-limit')
    except Exception as e:
        import traceback
        from .common import REPO, crash_signature
        frames = traceback.extract_tb(e.__traceback__)
        root = os.path.join(os.path.abspath(REPO), 'parso') + os.sep
        vf_root = os.path.join(VERIF, 'vf') + os.sep
        last_vf = max([i for i, f in enumerate(frames) if os.path.abspath(f.filename).startswith(vf_root)] or [-1])
        if any(os.path.abspath(f.filename).startswith(root) for f in frames[last_vf + 1:]):
            sig, det = crash_signature(e)
            return Outcome(fail=('uncaught-' + sig, det), nontrivial=True)
        raise


def _shard(args):
    pid, tier, seed, shard, n_examples, deadline, enum_cases = args
    import hypothesis
    from hypothesis import HealthCheck, Phase, given, settings
    prop = load_prop(pid)
    res = {
        'evaluations': 0, 'units': 0, 'nontrivial_keys': set(), 'classes': Counter(), 'excluded': Counter(),
        'failures': {}, 'fail_counts': Counter(), 'samples': [], 'budget_exhausted': False, 'error': None,
    }
    try:
        prop.setup_shard(tier, seed, shard)
        for case in enum_cases:
            _heartbeat(prop, shard, case)
            out = safe_check(prop, case)
            _record(prop, res, case, out)
        res['enum_done'] = len(enum_cases)
        res['extra'] = prop.extra_evidence(tier) if enum_cases else {}
        if n_examples <= 0:
            prop.teardown_shard()
            res['nontrivial_keys'] = list(res['nontrivial_keys'])
            return res
        strat = prop.strategy(tier)

        @hypothesis.seed((seed * 1000003 + shard * 7919 + 17) & 0xffffffff)
        @settings(max_examples=n_examples, database=None, deadline=None, derandomize=False,
                  phases=[Phase.generate], suppress_health_check=list(HealthCheck),
                  report_multiple_bugs=False, print_blob=False)
        @given(strat)
        def campaign(case):
            if time.time() > deadline:
                res['budget_exhausted'] = True
                raise _Stop()
            _heartbeat(prop, shard, case)
            out = safe_check(prop, case)
            _record(prop, res, case, out)
            if res.get('stop'):
                raise _Stop()

        try:
            campaign()
        except _Stop:
            pass
        prop.teardown_shard()
    except BaseException:
        res['error'] = traceback.format_exc()
    res['nontrivial_keys'] = list(res['nontrivial_keys'])
    return res


def _shard_entry(job, tx):
    try:
        tx.send(_shard(job))
    finally:
        tx.close()


def _last_case(pid, shard):
    try:
        with open(_hb_path(pid, shard)) as f:
            return '; last case: ' + f.read()[:600]
    except OSError:
        return ''


def _heartbeat(prop, shard, case):
    """Hang detection support (props with ``hang_timeout``): the case about to be evaluated is written to tmpfs so that
    the parent can name the culprit when a worker stops making progress inside C code (e.g. a backtracking regex)."""
    if not getattr(prop, 'hang_timeout', None) and not getattr(prop, 'track_cases', False):
        return
    try:
        with open(_hb_path(prop.id, shard), 'w') as f:
            json.dump(case, f)
    except (OSError, TypeError, ValueError):
        pass


def _hb_path(pid, shard):
    base = '/dev/shm' if os.path.isdir('/dev/shm') else '/tmp'
    return os.path.join(base, 'vf-hb-%s-%d-%d.json' % (pid, os.getppid() if shard >= 0 and multiprocessing.current_process().name != 'MainProcess' else os.getpid(), shard))


def _child_check(args):
    pid, case = args
    prop = load_prop(pid)
    prop.setup_shard('quick', 0, -1)
    try:
        out = safe_check(prop, case)
    finally:
        prop.teardown_shard()
    return (out.fail, out.nontrivial, list(out.classes), out.excluded, out.key, out.units)


def _in_child(pid, case):
    ctx = multiprocessing.get_context('fork')
    with ctx.Pool(1) as pool:
        fail, nontrivial, classes, excluded, key, units = pool.apply(_child_check, ((pid, case),))
    return Outcome(fail=fail, nontrivial=nontrivial, classes=classes, excluded=excluded, key=key, units=units)


def _record(prop, res, case, out):
    res['evaluations'] += 1
    res['units'] += out.units
    if out.excluded:
        res['excluded'][out.excluded] += 1
    for c in out.classes:
        res['classes'][c] += 1
    if out.nontrivial:
        key = out.key if out.key is not None else digest(json.dumps(case, sort_keys=True, default=repr))
        res['nontrivial_keys'].add(key)
        if len(res['samples']) < 3:
            res['samples'].append(prop.sample_repr(case))
    if out.fail is not None:
        sig, detail = out.fail
        if sig.startswith('does-not-terminate'):
            res['stop'] = True        # pathological tree: every further case may take minutes
        res['fail_counts'][sig] += 1
        lst = res['failures'].setdefault(sig, [])
        if len(lst) < 3:
            lst.append((case, detail))
        elif len(json.dumps(case, default=repr)) < len(json.dumps(lst[-1][0], default=repr)):
            lst[-1] = (case, detail)


# ---------------------------------------------------------------------------------------------
# shrinking (own ddmin; bypasses Hypothesis' shrinker and its 5-minute cap)


def _ddmin_seq(seq, test, join, max_tests):
    """Classic ddmin on a list; ``test(join(candidate))`` True = still fails."""
    n = 2
    tests = 0
    while len(seq) >= 2 and tests < max_tests:
        chunk = max(1, len(seq) // n)
        reduced = False
        for i in range(0, len(seq), chunk):
            cand = seq[:i] + seq[i + chunk:]
            tests += 1
            if test(join(cand)):
                seq = cand
                n = max(n - 1, 2)
                reduced = True
                break
            if tests >= max_tests:
                break
        if not reduced:
            if chunk == 1:
                break
            n = min(len(seq), n * 2)
    if len(seq) == 1 and tests < max_tests and test(join([])):
        seq = []
    return seq


def shrink_case(prop, case, sig, max_tests=3000, time_cap=40):
    from .common import ref_split_lines
    t_end = time.time() + time_cap
    budget = [max_tests]

    def fails(c):
        if time.time() > t_end or budget[0] <= 0:
            return False
        budget[0] -= 1
        try:
            out = prop.check(c)
        except Exception:
            return False
        return out.fail is not None and out.fail[0] == sig

    case = json.loads(json.dumps(case))
    changed = True
    rounds = 0
    while changed and rounds < 4:
        changed = False
        rounds += 1
        for field in prop.shrink_fields:
            if field not in case:
                continue
            val = case[field]

            def with_val(v, field=field):
                c = dict(case)
                c[field] = v
                return c
            if isinstance(val, str):
                lines = ref_split_lines(val, True)
                lines2 = _ddmin_seq(lines, lambda v: fails(with_val(v)), ''.join, 600)
                new = ''.join(lines2)
                if len(new) <= 600:
                    chars = _ddmin_seq(list(new), lambda v: fails(with_val(v)), ''.join, 1500)
                    new = ''.join(chars)
                if new != val:
                    case[field] = new
                    changed = True
            elif isinstance(val, list):
                new = _ddmin_seq(list(val), lambda v: fails(with_val(v)), list, 400)
                # shrink string elements too
                for i, el in enumerate(list(new)):
                    if isinstance(el, str) and el:
                        def with_el(s, i=i, new=new):
                            l2 = list(new)
                            l2[i] = s
                            return with_val(l2)
                        ls = _ddmin_seq(ref_split_lines(el, True), lambda v: fails(with_el(v)), ''.join, 200)
                        s2 = ''.join(ls)
                        if len(s2) <= 300:
                            s2 = ''.join(_ddmin_seq(list(s2), lambda v: fails(with_el(v)), ''.join, 600))
                        new[i] = s2
                if new != val:
                    case[field] = new
                    changed = True
        if hasattr(prop, 'shrink_extra'):
            c2 = prop.shrink_extra(case, fails)
            if c2 is not None and c2 != case:
                case = c2
                changed = True
    return case


# ---------------------------------------------------------------------------------------------
# main entry


def run_fuzz(pid, tier, seed):
    """Runs vf.fuzz (atheris) in parallel processes with fresh corpus directories; returns an info dict with the
    failing cases found.  Missing atheris = not explored (recorded), never an error."""
    import glob
    import shutil
    import subprocess
    import tempfile
    nproc = 2 if tier == 'quick' else 8
    runs = int(os.environ.get('VERIF_FUZZ_RUNS', 20000 if tier == 'quick' else 200000))
    base = '/dev/shm' if os.path.isdir('/dev/shm') else None
    work = tempfile.mkdtemp(prefix='vf-fuzz-%s-' % pid, dir=base)
    info = {'engine': 'atheris/libFuzzer', 'processes': nproc, 'runs_per_process': runs, 'available': True, 'failures': []}
    try:
        procs = []
        for i in range(nproc):
            corpus = os.path.join(work, 'corpus%d' % i)
            os.makedirs(corpus)
            cmd = [sys.executable, '-m', 'vf.fuzz', pid, os.path.join(work, 'out'), '-runs=%d' % runs,
                   '-seed=%d' % (seed * 100 + i + 1), '-max_len=%d' % (192 if i % 2 == 0 else 512), '-timeout=120', corpus]
            # stderr goes to a file: a PIPE that is only drained by a later communicate() blocks the fuzzer
            log = open(os.path.join(work, 'log%d' % i), 'wb')
            procs.append((subprocess.Popen(cmd, cwd=VERIF, stdout=subprocess.DEVNULL, stderr=log), log))
        units = 0
        # one wall-clock budget for all fuzz processes together: libFuzzer's own -timeout cannot interrupt a C call that does
        # not return (a backtracking regex), so a process that is still running at the deadline is killed and the campaign
        # is recorded as unfinished (inconclusive, never a violation - the Hypothesis campaign owns hang detection)
        deadline = time.time() + float(os.environ.get('VERIF_FUZZ_CAP', 180 if tier == 'quick' else 2400))
        info['killed_at_deadline'] = 0
        for i, (p, log) in enumerate(procs):
            try:
                p.wait(timeout=max(1.0, deadline - time.time()))
            except subprocess.TimeoutExpired:
                p.kill()
                p.wait()
                info['killed_at_deadline'] += 1
            log.close()
            with open(os.path.join(work, 'log%d' % i), 'rb') as f:
                err = f.read()[-4000:].decode('utf-8', 'replace')
            if 'No module named' in err and 'atheris' in err:
                info['available'] = False
            units += len(os.listdir(os.path.join(work, 'corpus%d' % i)))
        info['corpus_units'] = units
        for f in sorted(glob.glob(os.path.join(work, 'out', '*.json'))):
            with open(f) as fh:
                info['failures'].append(json.load(fh))
    finally:
        shutil.rmtree(work, ignore_errors=True)
    return info


def write_replay(pid, sig, case, detail, subdir='found'):
    d = os.path.join(REPLAY_DIR, subdir)
    os.makedirs(d, exist_ok=True)
    name = '%s-%s.json' % (pid, digest(sig).hex())
    path = os.path.join(d, name)
    with open(path, 'w') as f:
        json.dump({'property': pid, 'signature': sig, 'detail': detail, 'case': case}, f, indent=1, sort_keys=True)
    return path


def load_replay(path):
    with open(path) as f:
        return json.load(f)


def run_replay(pid, path):
    prop = load_prop(pid)
    prop.setup_shard('quick', 0, 0)
    r = load_replay(path)
    out = prop.check(r['case'])
    prop.teardown_shard()
    if out.fail is None:
        print('replay %s: property held (case passes)' % path)
        return 0
    sig, detail = out.fail
    known = match_known(load_known(pid), sig)
    if known:
        print('KNOWN-FINDING: property=%s %s: %s' % (pid, known['id'], known['what']))
        print('  detail: %s' % detail)
        return 0
    print('  signature: %s\n  detail: %s' % (sig, detail))
    print('VIOLATION property=%s replay=%s' % (pid, path))
    return 1


def run_check(pid, tier, seed):
    t0 = time.time()
    prop = load_prop(pid)
    known = load_known(pid)
    violations = []       # (sig, case, detail)
    known_hits = Counter()
    evaluations = 0
    units = 0
    nontrivial = set()
    classes = Counter()
    excluded = Counter()
    samples = []
    notes = []

    prop.setup_shard(tier, seed, -1)

    def judge(case, origin):
        # Replays run in a forked child: the parent, from which the shard workers are forked, must not have used the
        # library yet, so that every worker starts cold (first-use order of grammars / token collections is then the
        # worker's own, drawn, order).
        nonlocal evaluations, units
        out = _in_child(pid, case)
        evaluations += 1
        units += out.units
        for c in out.classes:
            classes[c] += 1
        if out.excluded:
            excluded[out.excluded] += 1
        if out.nontrivial:
            nontrivial.add(out.key if out.key is not None else digest(json.dumps(case, sort_keys=True, default=repr)))
        return out

    # 1. committed regression inputs (minimal cases of seeded mutants / earlier failures): must pass
    reg_dir = os.path.join(REPLAY_DIR, 'regress', pid)
    n_reg = 0
    if os.path.isdir(reg_dir):
        for fn in sorted(os.listdir(reg_dir)):
            if not fn.endswith('.json'):
                continue
            r = load_replay(os.path.join(reg_dir, fn))
            out = judge(r['case'], 'regress')
            n_reg += 1
            if out.fail is not None:
                k = match_known(known, out.fail[0])
                if k:
                    known_hits[k['id']] += 1
                else:
                    violations.append((out.fail[0], r['case'], out.fail[1], os.path.join(reg_dir, fn)))

    # 2. listed findings: replay each minimal case
    for k in known:
        path = os.path.join(VERIF, k['replay'])
        r = load_replay(path)
        out = judge(r['case'], 'known')
        if out.fail is not None and out.fail[0] == k['signature']:
            print('KNOWN-FINDING: property=%s %s: %s' % (pid, k['id'], k['what']))
            known_hits[k['id']] += 1
        elif out.fail is not None:
            violations.append((out.fail[0], r['case'], out.fail[1], path))
        else:
            notes.append('listed finding %s no longer reproduces' % k['id'])
            print('note: listed finding %s no longer reproduces on this tree' % k['id'])

    # 3. deterministic enumerations: materialised here, evaluated by the shard workers (round-robin)
    enum_list = list(prop.enumerate(tier, seed))
    n_enum = len(enum_list)
    prop.teardown_shard()

    # 4. generated campaign
    total = int(os.environ.get('VERIF_EXAMPLES', prop.budgets[tier]))
    cap = float(os.environ.get('VERIF_TIME_CAP', prop.time_caps[tier]))
    deadline = time.time() + cap
    budget_exhausted = False
    errors = []
    fail_counts = Counter()
    if total > 0 or enum_list:
        per = max(1, total // NSHARDS) if total > 0 else 0
        jobs = [(pid, tier, seed, s, per, deadline, enum_list[s::NSHARDS]) for s in range(NSHARDS)]
        ctx = multiprocessing.get_context('fork')
        hang_cases = []
        # one process per shard (not a Pool: a worker that is killed - e.g. by the OOM killer while unpickling a corrupted
        # cache file - must be *noticed*; a Pool silently replaces it and its result never arrives)
        workers = {}
        for i, j in enumerate(jobs):
            rx, tx = ctx.Pipe(duplex=False)
            pr = ctx.Process(target=_shard_entry, args=(j, tx))
            pr.start()
            tx.close()
            workers[i] = (pr, rx)
        try:
            hang = getattr(prop, 'hang_timeout', None)
            results = []
            pending = dict(workers)
            while pending:
                for i in list(pending):
                    pr, rx = pending[i]
                    if rx.poll():
                        try:
                            results.append(rx.recv())
                        except EOFError:
                            errors.append('shard %d: worker exited without a result (exit code %r)%s' % (i, pr.exitcode, _last_case(pid, i)))
                        pending.pop(i)
                        pr.join(5)
                    elif not pr.is_alive():
                        if rx.poll():
                            continue
                        errors.append('shard %d: worker died (exit code %r; negative = killed by that signal, -9 is what the OOM '
                                      'killer sends)%s' % (i, pr.exitcode, _last_case(pid, i)))
                        pending.pop(i)
                if not pending:
                    break
                time.sleep(0.2)
                if time.time() > deadline + max(600.0, 2 * cap):
                    # every shard checks the deadline between two cases; one that is this late is stuck inside a single case
                    for i in list(pending):
                        errors.append('shard %d did not finish %d s after the time cap (stuck in one case)%s'
                                      % (i, int(max(600.0, 2 * cap)), _last_case(pid, i)))
                        pending.pop(i)
                    break
                if hang:
                    now = time.time()
                    for i in list(pending):
                        hb = _hb_path(pid, i)
                        try:
                            age = now - os.path.getmtime(hb)
                        except OSError:
                            continue
                        if age > hang:
                            try:
                                with open(hb) as f:
                                    hang_cases.append(json.load(f))
                            except (OSError, ValueError):
                                pass
                            pending.pop(i)       # that worker is stuck; its partial results are lost
                    if hang_cases and not any(True for i in pending):
                        break
        finally:
            for pr, rx in workers.values():
                if pr.is_alive():
                    pr.kill()
                pr.join(5)
                rx.close()
        for i in range(NSHARDS):
            try:
                os.remove(_hb_path(pid, i))
            except OSError:
                pass
        for case in hang_cases[:2]:          # confirming costs minutes; two culprits are enough to report
            verdict = prop.confirm_hang(case)
            if verdict is not None and not any(v[0] == verdict[0] for v in violations):
                violations.append((verdict[0], case, verdict[1], None))
        gen_fail = {}
        shard_extra = {}
        for r in results:
            if r['error']:
                errors.append(r['error'])
            evaluations += r['evaluations']
            units += r['units']
            nontrivial.update(r['nontrivial_keys'])
            classes.update(r['classes'])
            excluded.update(r['excluded'])
            budget_exhausted |= r['budget_exhausted']
            fail_counts.update(r['fail_counts'])
            for s in r['samples']:
                if len(samples) < 6:
                    samples.append(s)
            for k_, v_ in (r.get('extra') or {}).items():
                shard_extra.setdefault(k_, v_)
            for sig, lst in r['failures'].items():
                gen_fail.setdefault(sig, []).extend(lst)
        if errors:
            sys.stderr.write('HARNESS ERROR in shard:\n' + errors[0] + '\n')
            return 2
        prop.setup_shard(tier, seed, -1)
        for sig, lst in sorted(gen_fail.items()):
            k = match_known(known, sig)
            if k:
                known_hits[k['id']] += fail_counts[sig]
                continue
            lst.sort(key=lambda cd: len(json.dumps(cd[0], default=repr)))
            case, detail = lst[0]
            if not any(v[0] == sig for v in violations):
                violations.append((sig, case, detail, None))
        prop.teardown_shard()

    # 4b. coverage-guided sub-tier (atheris): the property's own check runs inside the fuzz target
    fuzz_info = None
    if getattr(prop, 'fuzz', False) and not os.environ.get('VERIF_NO_FUZZ') \
            and not any(v[0].startswith('does-not-terminate') for v in violations):
        # (a non-terminating input found by the campaign would only hang the fuzz processes as well)
        fuzz_info = run_fuzz(pid, tier, seed)
        for r in fuzz_info.pop('failures'):
            k = match_known(known, r['signature'])
            if k:
                known_hits[k['id']] += 1
            elif not any(v[0] == r['signature'] for v in violations):
                violations.append((r['signature'], r['case'], r['detail'], None))

    # 5. shrink + write replays for violations
    rc = 0
    out_lines = []
    if violations:
        prop.setup_shard(tier, seed, -1)
        for sig, case, detail, path in violations:
            if sig.startswith('does-not-terminate') and hasattr(prop, 'confirm_hang') and 'isolated runs' not in detail:
                verdict = prop.confirm_hang(case)     # a slow case is only a candidate until confirmed in isolation
                if verdict is None:
                    continue
                sig, detail = verdict
            if path is None:
                if not sig.startswith('does-not-terminate'):      # never re-run a non-terminating case in this process
                    try:
                        small = shrink_case(prop, case, sig)
                        o = prop.check(small)
                        if o.fail is not None and o.fail[0] == sig:
                            case, detail = small, o.fail[1]
                    except Exception:
                        pass
                path = write_replay(pid, sig, case, detail)
            print('  signature: %s' % sig)
            print('  detail: %s' % detail)
            print('  case: %s' % short(case, 600))
            out_lines.append('VIOLATION property=%s replay=%s' % (pid, path))
        prop.teardown_shard()
        rc = 1 if out_lines else 0

    # 6. generator health
    nfrac = len(nontrivial) / max(1, evaluations)
    if (total > 0 or n_enum) and rc == 0 and nfrac < prop.min_nontrivial_fraction and not budget_exhausted:
        sys.stderr.write('HARNESS ERROR: degenerate generator: %d distinct non-trivial of %d cases\n'
                         % (len(nontrivial), evaluations))
        rc = 2

    # 7. evidence
    cov = {
        'evaluations': evaluations,
        'distinct_nontrivial': len(nontrivial),
        'rule': prop.rule,
        'samples': samples[:6] or [{'note': 'no non-trivial sample recorded'}],
        'elementary_checks': units,
        'regression_inputs_replayed': n_reg,
        'enumerated_cases': n_enum,
        'generated_cases': evaluations - n_reg - n_enum - len(known),
        'shards': NSHARDS,
        'class_distribution': dict(classes.most_common(40)),
        'excluded_known': dict(excluded),
        'known_finding_hits': dict(known_hits),
        'budget_exhausted': budget_exhausted,
        'exhaustive': False,
    }
    if fuzz_info is not None:
        cov['coverage_guided_fuzzing'] = fuzz_info
    if notes:
        cov['notes'] = notes
    cov.update(prop.extra_evidence(tier) or {})
    for k_, v_ in (locals().get('shard_extra') or {}).items():
        if not cov.get(k_):
            cov[k_] = v_
    ev = {
        'property_id': pid, 'tier': tier, 'seed': seed, 'level': prop.level, 'coverage': cov,
        'assumptions': list(prop.assumptions), 'wall_s': round(time.time() - t0, 2),
        'violations': len(out_lines),
    }
    os.makedirs(EVIDENCE_DIR, exist_ok=True)
    with open(os.path.join(EVIDENCE_DIR, pid + '.json'), 'w') as f:
        json.dump(ev, f, indent=1, sort_keys=True, default=repr)
    print('%s %s seed=%d: %d cases (%d distinct non-trivial, %d elementary checks), %d known-finding hits, '
          '%d excluded, %.1fs%s' % (pid, tier, seed, evaluations, len(nontrivial), units,
                                   sum(known_hits.values()), sum(excluded.values()), time.time() - t0,
                                   ' [budget exhausted]' if budget_exhausted else ''))
    for l in out_lines:
        print(l)
    return rc
