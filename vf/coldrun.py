"""C18 cold-start runner: a fresh interpreter whose *first* parso actions are the calls of one history, either
sequentially or in threads under the baton scheduler (no warm-up of any kind).  First-use memoisation that is
order dependent or not atomic shows up as a difference from the warm, sequential results.
stdin: {"calls": [...], "schedule": [...], "threaded": bool, "abort_first": n or null}   stdout: JSON list of results"""
import json
import os
import sys


def main():
    case = json.load(sys.stdin)
    from .common import REPO          # sets sys.path, imports parso (nothing is parsed or loaded yet)
    from .calls import run_call
    calls = case['calls']
    if case.get('abort_first'):
        # the very first use of the library in this process is interrupted at its n-th line (one-time initialisation of tables and
        # patterns happens there); the caller catches that and goes on
        from .common import aborted
        aborted(lambda: run_call(calls[0]), case['abort_first'])
    if case.get('threaded') and len(calls) >= 2:
        from .sched import Sched
        root = os.path.join(os.path.abspath(REPO), 'parso') + os.sep
        out = Sched(len(calls), case['schedule'], root).run([(lambda c=c: run_call(c)) for c in calls])
    else:
        out = [run_call(c) for c in calls]
    sys.stdout.write(json.dumps(out))


if __name__ == '__main__':
    main()
