"""Harness-owned, line-granular deterministic thread scheduler (C18).
Exactly one thread runs at a time; at every 'line' event in a file under REPO/parso the running
thread consumes the schedule (run lengths and next-thread choices) and may hand the baton over.
An interleaving is a pure function of the schedule, so it replays exactly."""
import os
import sys
import threading


class Sched:
    def __init__(self, n, schedule, root):
        self.sems = [threading.Semaphore(0) for _ in range(n)]
        self.alive = [True] * n
        self.schedule = schedule
        self.si = 0
        self.root = root
        self.run_left = self._next()
        self.switches = 0
        self.steps = 0
        # first-use targeting: the first time any parso function is entered (by any thread) a short fuse is lit, so that
        # a switch happens a few lines into it - where one-time initialisation / memoisation is typically half done
        self.seen_functions = set()
        self.salt = (schedule[0] if schedule else 1) * 2654435761 & 0xffffffff
        self.first_use_switches = 0
        self.inside = [False] * n      # thread currently inside BaseParser.parse / Normalizer.walk
        self.contended_switches = 0
        self.tls = threading.local()

    def _next(self):
        if self.si < len(self.schedule):
            r = self.schedule[self.si]
            self.si += 1
            return max(1, r)
        return 10 ** 9

    def tracer(self, frame, event, arg):
        code = frame.f_code
        if not code.co_filename.startswith(self.root):
            return None
        key = (code.co_filename, code.co_firstlineno)
        if key not in self.seen_functions:
            self.seen_functions.add(key)
            h = (hash(code.co_name) ^ self.salt ^ code.co_firstlineno * 40503) & 0xffff
            if h % 3 == 0:                      # one third of the first entries
                self.run_left = 1 + (h >> 4) % 24
                self.first_use_switches += 1
        return self.local

    def local(self, frame, event, arg):
        if event == 'line':
            self.point(frame)
        return self.local

    def point(self, frame):
        tid = self.tls.tid
        self.steps += 1
        name = frame.f_code.co_name
        if name in ('parse', 'walk', '_add_token', 'visit', 'tokenize_lines'):
            self.inside[tid] = True
        self.run_left -= 1
        if self.run_left <= 0:
            others = [i for i, a in enumerate(self.alive) if a and i != tid]
            self.run_left = self._next()
            if others:
                nxt = others[self.run_left % len(others)]
                self.switches += 1
                if sum(1 for i, a in enumerate(self.alive) if a and self.inside[i]) >= 2:
                    self.contended_switches += 1
                self.sems[nxt].release()
                self.sems[tid].acquire()

    def worker(self, tid, fn, out):
        self.tls.tid = tid
        self.sems[tid].acquire()
        sys.settrace(self.tracer)
        try:
            out[tid] = fn()
        except BaseException as e:
            out[tid] = ['EXC', type(e).__name__, str(e)[:200]]
        finally:
            sys.settrace(None)
            self.alive[tid] = False
            self.inside[tid] = False
            others = [i for i, a in enumerate(self.alive) if a]
            if others:
                self.sems[others[0]].release()

    def run(self, fns):
        out = [None] * len(fns)
        done = [_POOL.submit(self.worker, i, f, out) for i, f in enumerate(fns)]
        self.sems[0].release()
        for d in done:
            if not d.wait(120):
                raise RuntimeError('scheduler deadlock (harness error)')
        return out


class _Pool:
    """Persistent worker threads: creating a thread per call costs an mmap/munmap pair, which serialises across
    processes in this sandbox."""

    def __init__(self):
        self.lock = threading.Lock()
        self.idle = []

    def submit(self, fn, *args):
        done = threading.Event()
        with self.lock:
            w = self.idle.pop() if self.idle else None
        if w is None:
            w = _Worker(self)
            w.start()
        w.give(fn, args, done)
        return done


class _Worker(threading.Thread):
    def __init__(self, pool):
        super().__init__(daemon=True)
        self.pool = pool
        self.ev = threading.Event()
        self.task = None

    def give(self, fn, args, done):
        self.task = (fn, args, done)
        self.ev.set()

    def run(self):
        while True:
            self.ev.wait()
            self.ev.clear()
            fn, args, done = self.task
            try:
                fn(*args)
            finally:
                with self.pool.lock:
                    self.pool.idle.append(self)
                done.set()


_POOL = _Pool()
