"""Independent reference model of the pgen grammar dialect (never imports parso).

  read_grammar(text)  -> (order, {rule: ast})      own tokenizer + recursive descent
  rule_nfa(ast)       -> Thompson NFA
  to_dfa(ast)         -> determinised automaton (start, trans, finals, n)
  first sets / LL(1) conflicts / left recursion "in the sense of the C08 statement"

AST: ('sym', s) | ('seq', [..]) | ('alt', [..]) | ('opt', a) | ('star', a) | ('plus', a)
Symbols: NAME (nonterminal if defined as a rule, else a token type) or a quoted string.
"""
import ast as pyast


class GrammarSyntaxError(Exception):
    pass


def tokenize_grammar(text):
    """Yields (kind, value): NAME, STRING, OP, NEWLINE (only at bracket depth 0, after content)."""
    i = 0
    n = len(text)
    depth = 0
    content = False
    out = []
    while i < n:
        c = text[i]
        if c == '#':
            while i < n and text[i] not in '\r\n':
                i += 1
        elif c in '\r\n':
            if c == '\r' and text[i + 1:i + 2] == '\n':
                i += 1
            i += 1
            if depth == 0 and content:
                out.append(('NEWLINE', '\n'))
                content = False
        elif c in ' \t\f':
            i += 1
        elif c == '\\' and text[i + 1:i + 2] in ('\n', '\r'):
            i += 2
        elif c.isalpha() or c == '_':
            j = i
            while j < n and (text[j].isalnum() or text[j] == '_'):
                j += 1
            out.append(('NAME', text[i:j]))
            content = True
            i = j
        elif c in '\'"':
            j = i + 1
            while j < n and text[j] != c:
                if text[j] == '\\':
                    j += 1
                if j < n and text[j] in '\r\n':
                    raise GrammarSyntaxError('newline in string')
                j += 1
            if j >= n:
                raise GrammarSyntaxError('unterminated string')
            out.append(('STRING', text[i:j + 1]))
            content = True
            i = j + 1
        elif c in '()[]|*+:':
            if c in '([':
                depth += 1
            elif c in ')]':
                depth -= 1
            out.append(('OP', c))
            content = True
            i += 1
        else:
            raise GrammarSyntaxError('unexpected character %r' % c)
    if content:
        out.append(('NEWLINE', '\n'))
    return out


class _Reader:
    def __init__(self, toks):
        self.t = toks
        self.i = 0

    def peek(self):
        return self.t[self.i] if self.i < len(self.t) else ('END', None)

    def next(self):
        x = self.peek()
        self.i += 1
        return x

    def expect(self, kind, value=None):
        k, v = self.next()
        if k != kind or (value is not None and v != value):
            raise GrammarSyntaxError('expected %s %r, got %s %r' % (kind, value, k, v))
        return v

    def rhs(self):
        alts = [self.items()]
        while self.peek() == ('OP', '|'):
            self.next()
            alts.append(self.items())
        return ('alt', alts) if len(alts) > 1 else alts[0]

    def items(self):
        seq = [self.item()]
        while self.peek()[0] in ('NAME', 'STRING') or self.peek() in (('OP', '('), ('OP', '[')):
            seq.append(self.item())
        return ('seq', seq) if len(seq) > 1 else seq[0]

    def item(self):
        if self.peek() == ('OP', '['):
            self.next()
            r = self.rhs()
            self.expect('OP', ']')
            return ('opt', r)
        if self.peek() == ('OP', '('):
            self.next()
            a = self.rhs()
            self.expect('OP', ')')
        elif self.peek()[0] in ('NAME', 'STRING'):
            kind, val = self.next()
            if kind == 'STRING':
                # a quoted terminal is a Python string literal: 'a', "a" and '\x61' are one symbol (canonical spelling)
                val = repr(pyast.literal_eval(val))
            a = ('sym', val)
        else:
            raise GrammarSyntaxError('expected atom, got %r' % (self.peek(),))
        if self.peek() == ('OP', '*'):
            self.next()
            return ('star', a)
        if self.peek() == ('OP', '+'):
            self.next()
            return ('plus', a)
        return a


def read_grammar(text):
    r = _Reader(tokenize_grammar(text))
    order = []
    asts = {}
    while r.peek()[0] != 'END':
        if r.peek()[0] == 'NEWLINE':
            r.next()
            continue
        name = r.expect('NAME')
        r.expect('OP', ':')
        a = r.rhs()
        r.expect('NEWLINE')
        if name not in asts:
            order.append(name)
        asts[name] = a
    return order, asts


# ---- automata ---------------------------------------------------------------------------------


class NFA:
    def __init__(self):
        self.n = 0
        self.eps = {}
        self.tr = {}

    def new(self):
        self.n += 1
        return self.n - 1

    def e(self, a, b):
        self.eps.setdefault(a, set()).add(b)

    def t(self, a, sym, b):
        self.tr.setdefault(a, []).append((sym, b))

    def build(self, a):
        k = a[0]
        if k == 'sym':
            s, e = self.new(), self.new()
            self.t(s, a[1], e)
            return s, e
        if k == 'seq':
            first = prev = None
            for x in a[1]:
                s, e = self.build(x)
                if first is None:
                    first = s
                else:
                    self.e(prev, s)
                prev = e
            return first, prev
        if k == 'alt':
            s, e = self.new(), self.new()
            for x in a[1]:
                c, d = self.build(x)
                self.e(s, c)
                self.e(d, e)
            return s, e
        c, d = self.build(a[1])
        s, e = self.new(), self.new()
        self.e(s, c)
        self.e(d, e)
        if k in ('opt', 'star'):
            self.e(s, e)
        if k in ('star', 'plus'):
            self.e(d, c)
        if k not in ('opt', 'star', 'plus'):
            raise ValueError(k)
        return s, e

    def closure(self, S):
        S = set(S)
        st = list(S)
        while st:
            x = st.pop()
            for y in self.eps.get(x, ()):
                if y not in S:
                    S.add(y)
                    st.append(y)
        return frozenset(S)


def rule_nfa(a):
    n = NFA()
    s, e = n.build(a)
    return n, s, e


def to_dfa(a):
    """Subset construction.  Returns (trans {(state, sym): state}, finals set, nstates); start is 0."""
    n, s, e = rule_nfa(a)
    start = n.closure([s])
    states = {start: 0}
    todo = [start]
    trans = {}
    finals = set()
    while todo:
        S = todo.pop()
        if e in S:
            finals.add(states[S])
        by = {}
        for x in S:
            for sym, t in n.tr.get(x, ()):
                by.setdefault(sym, set()).add(t)
        for sym in sorted(by):
            C = n.closure(by[sym])
            if C not in states:
                states[C] = len(states)
                todo.append(C)
            trans[(states[S], sym)] = states[C]
    return trans, finals, len(states)


def minimise_classes(trans, finals, nstates):
    """Moore partition refinement: returns list mapping state -> class id (for 'states merged' evidence)."""
    syms = sorted({s for (_, s) in trans})
    cls = [1 if i in finals else 0 for i in range(nstates)]
    while True:
        sigs = {}
        new = []
        for i in range(nstates):
            sig = (cls[i],) + tuple(cls[trans[(i, s)]] if (i, s) in trans else -1 for s in syms)
            new.append(sigs.setdefault(sig, len(sigs)))
        if new == cls or len(set(new)) == len(set(cls)):
            return new
        cls = new


def terminal_key(sym):
    if sym[0] in '"\'':
        return ('str', pyast.literal_eval(sym))
    return ('tok', sym)


class LL1Conflict(Exception):
    pass


class LeftRecursion(Exception):
    pass


def first_plans(dfas):
    """dfas: {rule: (trans, finals, n)}.  first[rule] = {terminal_key: [(rule, state_after), ...chain]}.
    Raises LeftRecursion for recursion through first-state nonterminal arcs.  Conflicts inside a
    first state are NOT raised here (they are found by the per-state check)."""
    first = {}

    def calc(name, stack):
        if name in first:
            return first[name]
        if name in stack:
            raise LeftRecursion(name)
        trans = dfas[name][0]
        res = {}
        for (s, sym), t in sorted(trans.items()):
            if s != 0:
                continue
            if sym in dfas:
                for tk, chain in calc(sym, stack + (name,)).items():
                    res.setdefault(tk, [(name, t)] + chain)
            else:
                res.setdefault(terminal_key(sym), [(name, t)])
        first[name] = res
        return res
    for name in sorted(dfas):
        calc(name, ())
    return first


def expected_tables(dfas):
    """{(rule, state): {terminal_key: (next_state, chain)}}; raises LL1Conflict / LeftRecursion."""
    first = first_plans(dfas)
    tables = {}
    for name, (trans, finals, n) in dfas.items():
        for a in range(n):
            exp = {}
            for (s, sym), t in trans.items():
                if s != a:
                    continue
                if sym in dfas:
                    for tk, chain in first[sym].items():
                        if tk in exp:
                            raise LL1Conflict((name, a, tk))
                        exp[tk] = (t, chain)
                else:
                    tk = terminal_key(sym)
                    if tk in exp:
                        raise LL1Conflict((name, a, tk))
                    exp[tk] = (t, [])
            tables[(name, a)] = exp
    # a conflict hidden inside first sets (two nonterminal arcs of a first state) is a conflict of that state too
    for name, (trans, finals, n) in dfas.items():
        seen = {}
        for (s, sym), t in trans.items():
            if s != 0:
                continue
            keys = first[sym].keys() if sym in dfas else [terminal_key(sym)]
            for tk in keys:
                if tk in seen and seen[tk] != sym:
                    raise LL1Conflict((name, 0, tk))
                seen[tk] = sym
    return tables
