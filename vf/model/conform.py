"""Grammar conformance of tree nodes (C05): built from the grammar *text* via vf.model.ebnf."""
import ast as pyast
import os

from . import ebnf


class Conf:
    def __init__(self, grammar_text):
        self.order, self.asts = ebnf.read_grammar(grammar_text)
        self.nfa = {n: ebnf.rule_nfa(a) for n, a in self.asts.items()}
        # unit closure: nonterminal S matches a child of type X if S =>* X through single-child expansions
        self.unit = {n: self._single(n) for n in self.order}
        self.reach = {n: set(u) | {n} for n, u in self.unit.items()}
        changed = True
        while changed:
            changed = False
            for n in self.order:
                for x in list(self.reach[n]):
                    if x in self.reach:
                        new = self.reach[x] - self.reach[n]
                        if new:
                            self.reach[n] |= new
                            changed = True

    def _single(self, name):
        nf, a, b = self.nfa[name]
        res = set()
        for s in nf.closure([a]):
            for sym, t in nf.tr.get(s, ()):
                if b in nf.closure([t]):
                    res.add(sym)
        return res

    @staticmethod
    def leaf_sym(leaf):
        return {'name': 'NAME', 'number': 'NUMBER', 'string': 'STRING', 'newline': 'NEWLINE', 'endmarker': 'ENDMARKER',
                'fstring_start': 'FSTRING_START', 'fstring_string': 'FSTRING_STRING',
                'fstring_end': 'FSTRING_END'}.get(leaf.type, '?' + leaf.type)

    def sym_matches(self, sym, child):
        """does grammar symbol ``sym`` derive exactly ``child`` (with single-child collapsing)?"""
        if hasattr(child, 'children'):
            ctype = child.type
            cands = {'lambdef', 'lambdef_nocond'} if ctype == 'lambdef' else {ctype}
            if sym in self.reach:
                return bool(cands & self.reach[sym])
            return False
        ls = self.leaf_sym(child)

        def eq(s):
            if s[0] in '\'"':
                return child.type in ('keyword', 'operator') and pyast.literal_eval(s) == child.value
            return s == ls
        if sym in self.reach:
            return any(eq(s) for s in self.reach[sym] if s not in self.reach)
        return eq(sym)

    def accepts(self, rule, children, pseudo=None, extra=None):
        """NFA simulation.  pseudo: {id(child): symbol it stands for exactly};
        extra: {id(child): symbol it may additionally stand for}."""
        pseudo = pseudo or {}
        extra = extra or {}
        nf, a, b = self.nfa[rule]
        S = nf.closure([a])
        for c in children:
            T = set()
            pc = pseudo.get(id(c))
            ec = extra.get(id(c))
            for s in S:
                for sym, t in nf.tr.get(s, ()):
                    if pc is not None:
                        if sym == pc:
                            T.add(t)
                    elif self.sym_matches(sym, c):
                        T.add(t)
                    elif ec is not None and sym == ec:
                        T.add(t)
            S = nf.closure(T)
            if not S:
                return False
        return b in S
