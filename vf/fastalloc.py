"""Optional speed-up: install native/arena_cache.so as CPython's arena allocator (see the
comment in native/arena_cache.c).  Purely a performance measure for this sandbox; any
failure to load it is ignored."""
import ctypes
import os

_SO = os.path.join(os.path.dirname(os.path.dirname(os.path.abspath(__file__))), 'native', 'arena_cache.so')
installed = False


class _Alloc(ctypes.Structure):
    _fields_ = [('ctx', ctypes.c_void_p), ('alloc', ctypes.c_void_p), ('free', ctypes.c_void_p)]


def install():
    global installed
    if installed or os.environ.get('VERIF_NO_FASTALLOC'):
        return installed
    try:
        lib = ctypes.CDLL(_SO)
        a = _Alloc()
        lib.fill_allocator(ctypes.byref(a))
        ctypes.pythonapi.PyObject_SetArenaAllocator(ctypes.byref(a))
        installed = True
    except Exception:
        installed = False
    return installed
