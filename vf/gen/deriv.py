"""G-DERIV: sentences of the shipped grammars, generated from the *independent* EBNF model
(vf/model/ebnf.py): random derivations driven by a choice stream, and the exhaustive
arc-coverage enumeration.  Also the renderer (spellings + layout) and the expected-tree
builder that applies the documented collapsing conventions.

A derivation is  ('rule', name, [children])  |  ('tok', symbol)  where symbol is a token
type name or a quoted string of the grammar text."""
import ast as pyast
import heapq
import os

from ..common import REPO
from ..model import ebnf

INF = 10 ** 9
VERS = {'3.6': '36', '3.7': '37', '3.8': '38', '3.9': '39', '3.10': '310', '3.11': '311', '3.12': '312',
        '3.13': '313', '3.14': '314'}


class Choices:
    """Deterministic choice stream over a list of ints (exhausted -> zeros = minimal choices)."""

    def __init__(self, data):
        self.data = data
        self.i = 0

    def next(self, n):
        if n <= 1:
            return 0
        if self.i < len(self.data):
            v = self.data[self.i]
            self.i += 1
            if n > 256 and self.i < len(self.data):      # the stream holds bytes: large pools take two of them
                v = v * 256 + self.data[self.i]
                self.i += 1
            return v % n
        return 0

    @property
    def exhausted(self):
        return self.i >= len(self.data)


class GrammarModel:
    def __init__(self, version):
        self.version = version
        with open(os.path.join(REPO, 'parso', 'python', 'grammar%s.txt' % VERS[version])) as f:
            self.text = f.read()
        self.order, self.asts = ebnf.read_grammar(self.text)
        self.arcs = {}       # rule -> {state: [(sym, target)]}
        self.finals = {}
        for name in self.order:
            trans, finals, n = ebnf.to_dfa(self.asts[name])
            d = {s: [] for s in range(n)}
            for (s, sym), t in sorted(trans.items()):
                if self.banned(name, sym):
                    continue
                d[s].append((sym, t))
            self.arcs[name] = d
            self.finals[name] = finals
        self.reserved = set()
        for name in self.order:
            for s, lst in self.arcs[name].items():
                for sym, t in lst:
                    if sym[0] in '\'"':
                        self.reserved.add(pyast.literal_eval(sym))
        self._costs()
        self._contexts()

    # alternatives the tokenizer can never produce (the property's own restriction)
    @staticmethod
    def banned(rule, sym):
        if sym == "'<>'":
            return True
        if rule in ('file_input', 'stmt') and sym == 'NEWLINE':
            return True
        return False

    def is_rule(self, sym):
        return sym in self.arcs

    def _costs(self):
        """cost[rule] = minimal number of tokens of a sentence; fin[rule][state] = (cost to a final state, best arc)."""
        cost = {r: INF for r in self.order}
        changed = True
        while changed:
            changed = False
            for r in self.order:
                c = self._dijkstra(r, cost)[0].get(0, (INF, None))[0]
                if c < cost[r]:
                    cost[r] = c
                    changed = True
        self.cost = cost
        self.fin = {r: self._dijkstra(r, cost)[0] for r in self.order}

    def _symcost(self, sym, cost):
        return cost[sym] if sym in cost else 1

    def _dijkstra(self, rule, cost):
        """backward shortest path to a final state: returns ({state: (cost, (sym, target))}, )"""
        arcs = self.arcs[rule]
        rev = {}
        for s, lst in arcs.items():
            for sym, t in lst:
                rev.setdefault(t, []).append((s, sym))
        best = {}
        heap = [(0, f, None) for f in sorted(self.finals[rule])]
        heapq.heapify(heap)
        while heap:
            c, s, via = heapq.heappop(heap)
            if s in best:
                continue
            best[s] = (c, via)
            for p, sym in rev.get(s, ()):
                sc = self._symcost(sym, cost)
                if sc >= INF or p in best:
                    continue
                heapq.heappush(heap, (c + sc, p, (sym, s)))
        return (best,)

    def _contexts(self):
        """parent[R] = (P, state, target) of an arc labelled R, found by BFS from the start rules (shallowest)."""
        self.depth = {}
        self.parent = {}
        for start in ('file_input', 'eval_input'):
            if start not in self.arcs:
                continue
            todo = [start]
            self.depth.setdefault(start, 0)
            self.parent.setdefault(start, None)
            while todo:
                nxt = []
                for P in todo:
                    for s, lst in sorted(self.arcs[P].items()):
                        for sym, t in lst:
                            if self.is_rule(sym) and sym not in self.depth and self.cost[sym] < INF \
                                    and s in self.fin[P] and t in self.fin[P]:
                                self.depth[sym] = self.depth[P] + 1
                                self.parent[sym] = (P, s, t)
                                nxt.append(sym)
                todo = nxt
        self.reachable = [r for r in self.order if r in self.depth]

    # ---- minimal pieces ----------------------------------------------------------------------
    def min_sym(self, sym):
        if self.is_rule(sym):
            return ('rule', sym, self.complete(sym, 0))
        return ('tok', sym)

    def complete(self, rule, state):
        out = []
        while True:
            c, via = self.fin[rule][state]
            if via is None:
                return out
            sym, t = via
            out.append(self.min_sym(sym))
            state = t

    def path_to(self, rule, state):
        """children along a cheapest path 0 -> state (forward Dijkstra)."""
        arcs = self.arcs[rule]
        best = {}
        heap = [(0, 0, 0, None)]
        n = 0
        prev = {}
        while heap:
            c, _, s, via = heapq.heappop(heap)
            if s in best:
                continue
            best[s] = c
            prev[s] = via
            if s == state:
                break
            for sym, t in arcs[s]:
                sc = self._symcost(sym, self.cost)
                if sc >= INF or t in best:
                    continue
                n += 1
                heapq.heappush(heap, (c + sc, n, t, (s, sym)))
        if state not in prev:
            return None
        syms = []
        s = state
        while prev[s] is not None:
            p, sym = prev[s]
            syms.append(sym)
            s = p
        return [self.min_sym(x) for x in reversed(syms)]

    def embed(self, rule, children):
        """Wrap the derivation of ``rule`` into the shallowest context up to a start rule."""
        tree = ('rule', rule, children)
        while self.parent[rule] is not None:
            P, s, t = self.parent[rule]
            before = self.path_to(P, s)
            tree = ('rule', P, before + [tree] + self.complete(P, t))
            rule = P
        return tree

    def arc_sentences(self):
        """One minimal derivation per (rule, state, symbol) arc reachable from a start rule."""
        for R in self.reachable:
            for s, lst in sorted(self.arcs[R].items()):
                if s not in self.fin[R]:
                    continue
                before = self.path_to(R, s)
                if before is None:
                    continue
                for sym, t in lst:
                    if t not in self.fin[R] or self._symcost(sym, self.cost) >= INF:
                        continue
                    if R == 'eval_input' and sym == 'NEWLINE' and s == t:
                        continue       # second trailing NEWLINE: not producible
                    kids = before + [self.min_sym(sym)] + self.complete(R, t)
                    yield (R, s, sym), self.embed(R, kids)

    # ---- random derivations ------------------------------------------------------------------
    def derive(self, rule, ch, budget, width=9, depth=0):
        """Random derivation.  Forced steps (a single outgoing arc, not final) are free; every real
        decision consumes one value of the choice stream; when the stream is exhausted (or the
        depth cap ``budget*8`` is hit) the rest is completed minimally."""
        state = 0
        kids = []
        arcs = self.arcs[rule]
        steps = 0
        newline_used = False
        while True:
            final = state in self.finals[rule]
            avail = [(sym, t) for sym, t in arcs[state] if t in self.fin[rule] and self._symcost(sym, self.cost) < INF]
            if rule == 'eval_input' and newline_used:
                avail = [(sym, t) for sym, t in avail if sym != 'NEWLINE']
            if not avail:
                return ('rule', rule, kids)
            if depth > budget * 8 or steps >= width or ch.exhausted:
                kids += self.complete(rule, state)
                return ('rule', rule, kids)
            if final and ch.next(3) != 0:
                return ('rule', rule, kids)
            sym, t = avail[0] if len(avail) == 1 else avail[ch.next(len(avail))]
            if sym == 'ENDMARKER' and len(avail) > 1 and ch.next(4) != 0:
                others = [x for x in avail if x[0] != 'ENDMARKER']
                sym, t = others[ch.next(len(others))]      # do not end the input too early
            if sym == 'NEWLINE':
                newline_used = True
            if self.is_rule(sym):
                kids.append(self.derive(sym, ch, budget, width, depth + 1))
            else:
                kids.append(('tok', sym))
            state = t
            steps += 1

    def complete_filtered(self, rule, state, newline_used):
        return self.complete(rule, state)


_models = {}


def model(version):
    m = _models.get(version)
    if m is None:
        m = _models[version] = GrammarModel(version)
    return m


class Term(str):
    """terminal symbol with rendering context: .tight (no layout allowed before it), .spec (inside a format spec)"""
    tight = False
    spec = False


def terminals(tree):
    """Flat terminal list of Term objects (str subclasses)."""
    out = []

    def rec(t, spec, force_tight):
        if t[0] == 'tok':
            x = Term(t[1])
            x.spec = spec
            x.tight = force_tight or t[1] in ('FSTRING_STRING', 'FSTRING_END')
            out.append(x)
            return
        rule = t[1]
        kids = t[2]
        has_spec = rule == 'fstring_expr' and any(k[0] == 'rule' and k[1] == 'fstring_format_spec' for k in kids)
        for i, k in enumerate(kids):
            tight = False
            kspec = spec
            if rule == 'fstring_expr':
                kspec = False
                if i == 0:
                    tight = True                      # the opening brace follows string content
                elif i == len(kids) - 1 and has_spec:
                    tight = True                      # closing brace right after the format spec text
            elif rule == 'fstring_format_spec':
                kspec = True
            elif rule == 'fstring_conversion' and i == 1:
                tight = True                          # '!r'
            if i == 0 and force_tight:
                tight = True
            rec(k, kspec, tight)
    rec(tree, False, False)
    return out


def rules_used(tree):
    res = set()
    stack = [tree]
    while stack:
        t = stack.pop()
        if t[0] == 'rule':
            res.add(t[1])
            stack.extend(t[2])
    return res


# ---- rendering ----------------------------------------------------------------------------------

NAME_POOL = ['__future__', '__class__', 'x', 'foo', 'y1', '_', 'é', 'Ünï', 'a_b', 'self', 'ℂ', 'match', 'case', 'type', 'print', 'exec', 'nonloc', 'T', 'aa', 'l']
NUMBER_POOL = ['09e1', '09j', '007J', '0_1j', '1.5j', '.5j', '1e3j', '1', '0', '23', '0x1f', '0o17', '0b101', '1_000', '1.5', '1.', '.5', '1e5', '1E-5', '1.5e+3', '2j', '1.e5j', '0_0',
               '0B1', '0XF_F', '1_0.0_1']
STRING_POOL = ["'a\x85b'", "'\x0c'", "'\x1c\x1d'", '"\u2028"', "'\xa0'", "'\ud800'", "'s'", '"d"', "''", '""', "'''t'''", '"""t\nu"""', "b'b'", 'B"b"', "r's\\d'", "R'r'", "u'u'", "rb'x'", "Rb'x'", "bR'x'",
               "'a\\'b'", '"a\\"b"', "'\\n\\x41\\u00e9'", "'\\N{DASH}'", "'é'", "'a\\\nb'", "'#'", "'{x}'"]
# ... and the product prefix x quote x body (the tokenizer has separate code paths per prefix length, quote kind and for
# literals continued over a backslash-newline); every member is one STRING token of every grammar version
_BODIES = ['', 'x', 'a b', '\\n', 'a\\\nb', 'a\\\r\nb', '\\\n', '#', '{x}', "\\'", '\\"', '\\\\']
STRING_POOL += [p + q + b + q
                for p in ('', 'b', 'B', 'r', 'R', 'u', 'U', 'rb', 'rB', 'Rb', 'RB', 'br', 'bR', 'Br', 'BR')
                for q in ("'", '"', "'''", '"""')
                for b in _BODIES
                if not (p.lower() in ('r', 'rb', 'br') and b.endswith('\\') and len(b) % 2 == 1 and not b.endswith('\\\\'))]
STRING_POOL_IN_F = {"'": ['"d"', '""', 'b"b"', 'r"r"', '"é"'], '"': ["'s'", "''", "b'b'", "r'r'", "'é'"]}
FSTRING_TEXT = ['a', 'a b', ' ', 'é', '{{', '}}', 'x{{y}}', '\\n', '#', 'a.b', '%s', '->']
FORMAT_TEXT = ['\\t<10', '\\x20>8', '>10', '10', '.2f', 'x', '^', ' ', 'd', '#x', ',']


def _literal(sym):
    return pyast.literal_eval(sym)


class Renderer:
    """Renders a terminal sequence with generated spellings and layout.  Returns (text, intended)
    where intended is the list of (symbol, text) for the tokenization precondition."""

    def __init__(self, model, ch, plain=False):
        self.m = model
        self.ch = ch
        self.plain = plain

    def name(self):
        while True:
            n = NAME_POOL[self.ch.next(len(NAME_POOL))]
            if n not in self.m.reserved:
                return n
            # deterministic fall-back
            return 'x'

    def render(self, toks):
        ch = self.ch
        plain = self.plain
        out = []
        intended = []
        indents = ['']
        bol = True
        paren = 0
        fstack = []     # [quote, depth of paren at start, in_spec]
        nl = '\n' if plain else ['\n', '\n', '\r\n', '\n'][ch.next(4)]
        n = len(toks)
        for i, t in enumerate(toks):
            if t == 'INDENT':
                unit = '    ' if plain else [' ', '  ', '    ', '        ', '\t', '   '][ch.next(6)]
                indents.append(indents[-1] + unit)
                intended.append((t, ''))
                continue
            if t == 'DEDENT':
                indents.pop()
                intended.append((t, ''))
                continue
            if t == 'ENDMARKER':
                intended.append((t, ''))
                continue
            if t == 'NEWLINE':
                s = ''
                if not plain and not fstack:
                    k = ch.next(8)
                    if k == 1:
                        s = '  # comment'
                    elif k == 2:
                        s = ' '
                out.append(s + nl)
                intended.append((t, nl))
                # optional blank / comment-only lines
                if not plain and ch.next(10) == 0:
                    out.append([nl, '# c' + nl, '   ' + nl, indents[-1] + '# x' + nl][ch.next(4)])
                bol = True
                continue
            # a real token
            if t == 'FSTRING_STRING':
                pool = FORMAT_TEXT if t.spec else FSTRING_TEXT
                text = pool[ch.next(len(pool))]
                out.append(text)          # no layout before: it is string content
                intended.append(('FSTRING_STRING', text))
                continue
            if t == 'FSTRING_END':
                q = fstack.pop()[0] if fstack else "'"
                out.append(q)
                intended.append((t, q))
                continue
            # layout before the token
            if bol:
                out.append(indents[-1])
                bol = False
            elif getattr(t, 'tight', False):
                pass           # string-content level of an f-string: no layout possible
            else:
                sp = ' '
                if not plain:
                    k = ch.next(12)
                    if k == 1:
                        sp = '  '
                    elif k == 2:
                        sp = '\t'
                    elif k == 3 and not fstack:
                        sp = ' \\' + nl + ' '
                    elif k == 4 and paren > 0 and not fstack:
                        sp = nl + indents[-1] + '  '
                    elif k == 5 and paren > 0 and not fstack:
                        sp = '  # c' + nl + ' '
                    elif k == 6 and i > 0 and self._tight(toks[i - 1], t):
                        sp = ''
                out.append(sp)
            if t == 'NAME':
                text = self.name()
            elif t == 'NUMBER':
                text = NUMBER_POOL[ch.next(len(NUMBER_POOL))]
            elif t == 'STRING':
                if fstack:
                    pool = STRING_POOL_IN_F.get(fstack[-1][0][0], ['1'])
                    text = pool[ch.next(len(pool))]
                else:
                    text = STRING_POOL[ch.next(len(STRING_POOL))]
                    if '\n' in text and nl != '\n':
                        text = text.replace('\n', nl)
            elif t == 'FSTRING_START':
                if fstack:
                    inner = fstack[-1][0]
                    q = '"' if inner[0] == "'" else "'"
                else:
                    q = ["'", '"', "'''", '"""'][ch.next(4)]
                pre = ['f', 'F', 'rf', 'fr', 'Rf', 'fR'][ch.next(6)]
                text = pre + q
                fstack.append([q, paren, False])
            else:
                text = _literal(t)
                if text in '([{':
                    paren += 1
                elif text in ')]}':
                    paren = max(0, paren - 1)
            out.append(text)
            intended.append((t, text))
        return ''.join(out), intended

    @staticmethod
    def _tight(a, b):
        """tokens that can be written without a space in between without merging"""
        if a[0] in '\'"' and b[0] in '\'"':
            x, y = _literal(a), _literal(b)
            return (x in '()[]{},;' or y in '()[]{},;') and not (x.isalpha() or y.isalpha())
        if a[0] in '\'"':
            x = _literal(a)
            return x in '([{,;' and b in ('NAME', 'NUMBER', 'STRING')
        if b[0] in '\'"':
            y = _literal(b)
            return y in ')]},;([' and a in ('NAME', 'STRING')
        return False


# ---- expected tree ------------------------------------------------------------------------------

LEAF_TYPES = {'NAME': 'name', 'NUMBER': 'number', 'STRING': 'string', 'NEWLINE': 'newline', 'ENDMARKER': 'endmarker',
              'FSTRING_START': 'fstring_start', 'FSTRING_STRING': 'fstring_string', 'FSTRING_END': 'fstring_end'}


def expected_tree(tree, texts, root=True):
    """Applies the documented conventions.  ``texts`` is an iterator over the rendered terminal texts
    (INDENT/DEDENT included, consumed in order).  Returns ('node', type, [children]) | ('leaf', type, value) | None."""
    if tree[0] == 'tok':
        sym = tree[1]
        text = next(texts)
        if sym in ('INDENT', 'DEDENT'):
            return None
        if sym in LEAF_TYPES:
            return ('leaf', LEAF_TYPES[sym], text)
        v = _literal(sym)
        return ('leaf', 'keyword' if (v[0].isalpha() or v[0] == '_') else 'operator', v)
    rule = tree[1]
    kids = []
    for k in tree[2]:
        e = expected_tree(k, texts, False)
        if e is None:
            continue
        # dissolve typedargslist / varargslist directly under parameters / lambdef
        if rule in ('parameters', 'lambdef', 'lambdef_nocond') and e[0] == 'node' and e[1] in ('typedargslist', 'varargslist'):
            kids.extend(e[2])
        else:
            kids.append(e)
    if rule == 'lambdef_nocond':
        rule = 'lambdef'
    # documented grouping: every parameter (with annotation/default and its trailing comma) becomes a `param` node;
    # a bare `*` (alone or directly followed by a comma) and the positional-only marker `/` stay operator leaves
    if rule == 'parameters' and len(kids) >= 2:
        kids = [kids[0]] + group_params(kids[1:-1]) + [kids[-1]]
    elif rule == 'lambdef' and len(kids) >= 3:
        kids = [kids[0]] + group_params(kids[1:-2]) + kids[-2:]
    if len(kids) == 1 and not root:
        return kids[0]
    return ('node', rule, kids)


def group_params(inner):
    out = []
    chunk = []

    def flush():
        if not chunk:
            return
        first = chunk[0]
        star = first == ('leaf', 'operator', '*')
        slash = first == ('leaf', 'operator', '/')
        if (star and (len(chunk) == 1 or chunk[1] == ('leaf', 'operator', ','))) or slash:
            out.extend(chunk)
        else:
            out.append(('node', 'param', list(chunk)))
        del chunk[:]
    for k in inner:
        chunk.append(k)
        if k == ('leaf', 'operator', ','):
            flush()
    flush()
    return out


def actual_tree(n):
    ch = getattr(n, 'children', None)
    if ch is None:
        return ('leaf', n.type, n.value)
    return ('node', n.type, [actual_tree(c) for c in ch])


def tree_mismatch(exp, act, path='root'):
    if exp[0] != act[0]:
        return '%s: expected %s %s, got %s %s' % (path, exp[0], exp[1], act[0], act[1])
    if exp[0] == 'leaf':
        if exp[1:] != act[1:]:
            return '%s: expected leaf %r, got %r' % (path, exp[1:], act[1:])
        return None
    if exp[1] != act[1]:
        return '%s: expected node %s, got %s' % (path, exp[1], act[1])
    if len(exp[2]) != len(act[2]):
        return '%s/%s: expected %d children %r, got %d %r' % (path, exp[1], len(exp[2]), [c[1] for c in exp[2]][:12],
                                                               len(act[2]), [c[1] for c in act[2]][:12])
    for i, (e, a) in enumerate(zip(exp[2], act[2])):
        d = tree_mismatch(e, a, '%s/%s[%d]' % (path, exp[1], i))
        if d:
            return d
    return None
