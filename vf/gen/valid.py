"""G-VALID: candidate programs for the CPython-differential properties (C10, C12, C14).
Candidates are *re-validated by the reference interpreter* inside the check; this module only tries to
keep the acceptance rate high and the lexical/syntactic variety rich."""
import ast
import warnings
import re

from hypothesis import strategies as st

from ..common import ref_split_lines
from . import text as T

# ---- (a) statement-aligned windows of real files ---------------------------------------------------

_ranges = {}


def stmt_ranges(path):
    """[(first_line, last_line, col)] of statements (module level and one/two nesting levels), 1-based inclusive."""
    r = _ranges.get(path)
    if r is not None:
        return r
    src = T.read_text(path)
    res = []
    try:
        with warnings.catch_warnings():
            warnings.simplefilter('ignore')
            tree = ast.parse(src)
    except (SyntaxError, ValueError, RecursionError):
        _ranges[path] = res
        return res

    def first_line(n):
        l = n.lineno
        for d in getattr(n, 'decorator_list', ()):
            l = min(l, d.lineno)
        return l

    def visit(body, depth):
        for n in body:
            if getattr(n, 'end_lineno', None) is None:
                continue
            res.append((first_line(n), n.end_lineno, n.col_offset, depth))
            if depth < 2:
                for fld in ('body', 'orelse', 'finalbody'):
                    b = getattr(n, fld, None)
                    if isinstance(b, list) and b and isinstance(b[0], ast.stmt):
                        visit(b, depth + 1)
    visit(tree.body, 0)
    _ranges[path] = res
    return res


@st.composite
def stmt_window(draw, kinds=('repo',), max_stmts=6, max_lines=60):
    files = []
    for k in kinds:
        files += T.corpus_files(k)
    for _ in range(4):
        f = files[draw(st.integers(0, len(files) - 1))]
        rs = stmt_ranges(f)
        if rs:
            break
    else:
        return 'x = 1\n'
    i = draw(st.integers(0, len(rs) - 1))
    a, b, col, depth = rs[i]
    # extend over following siblings (same column and depth, contiguous)
    j = i
    n = draw(st.integers(1, max_stmts))
    while j + 1 < len(rs) and n > 1 and rs[j + 1][2] == col and rs[j + 1][3] == depth and rs[j + 1][0] > b \
            and rs[j + 1][1] - a < max_lines:
        j += 1
        b = rs[j][1]
        n -= 1
    lines = T.corpus_lines(f)[a - 1:b]
    if b - a > max_lines:
        lines = lines[:max_lines]
    if col:
        lines = [l[col:] if l[:col].strip() == '' else l for l in lines]
        if depth and draw(st.booleans()):
            # keep return/yield/await legal: wrap in a function
            lines = ['def _f():\n'] + ['    ' + l if l.strip() else l for l in lines]
    return ''.join(lines)


# ---- (c) lexically rich hand-written programs -----------------------------------------------------

NAMES = st.sampled_from(['x', 'y', 'foo', 'a1', '_', '__x__', 'é', 'Ünï', '名前', 'self', 'value', 'i', 'n', 'match', 'case', 'type'])
NUMBERS = st.sampled_from(['09e1', '09j', '007J', '01j', '0_1j', '08e+3', '010e1j', '00_7E-2J', '09.5', '1.5j', '1.J', '.5j', '1e3j', '2.5E-3J', '0', '1', '10', '1_0', '0_0', '0x1f', '0X1F', '0o17', '0O7', '0b101', '0B1', '1.', '.5', '1.5', '1e5', '1E-5',
                           '1.e5j', '1j', '1J', '1_000.000_1', '0.0', '00', '1e+3', '0xdead_beef', '9' * 25, '1_0j', '0e0', '.1e-1_0'])
STRINGS = st.builds(
    lambda p, q, body: p + q + body + q,
    st.sampled_from(['', 'b', 'B', 'r', 'R', 'u', 'U', 'rb', 'bR', 'Rb', 'BR', 'br']),
    st.sampled_from(['"', "'", '"""', "'''"]),
    st.sampled_from(['', 's', 'a b', '\\\\n', '\\\\', 'x\\\\\\ny', '{x}', '\\\\x41', '#', '%s', '\\\\t', 'it' + chr(92) + chr(92) + 's', chr(92) + 'x', chr(92) + 'u12', chr(92) + 'N', 'C:' + chr(92) + 'Users' + chr(92) + 'me', chr(92) + 'U0001', chr(92) + 'd+']))
FSTRINGS = st.builds(
    lambda p, q, parts: p + q + ''.join(parts) + q,
    st.sampled_from(['f', 'F', 'rf', 'fr', 'Rf', 'FR']),
    st.sampled_from(['"', "'", '"""', "'''"]),
    st.lists(st.sampled_from(['return', 'break', 'yield', 'continue', 'await', 'pass', '*', '**', 'global x', 'from', '{x:\\t<10}', '{x!r:\\x20>8}', '{x:{w}\\n}', '\\n', '{x:\\N{BULLET}^9}', 'a', ' ', '{x}', '{x!r}', '{x:>10}', '{x:{w}}', '{{', '}}', '{x + 1}', '{x.y}', '{x[0]}', '{x!s:^{w}.{p}}',
                              '{f(x)}', '{x,}', '{(lambda: 1)()}', '{x if y else z}', '{x:%Y-%m}', '{3.14:10.10}', '{x = }', '{x=!r}']),
             max_size=4))
ATOMS = st.one_of(NAMES, NAMES, NUMBERS, STRINGS, FSTRINGS, st.sampled_from(['None', 'True', 'False', '...', '()', '[]', '{}', '(x,)',
                                                                              '[1, 2]', '{1: 2}', '{1, 2}', '(yield)', '[*a, *b]', '{**a, **b}']))
BINOPS = st.sampled_from(['+', '-', '*', '/', '//', '%', '**', '<<', '>>', '&', '|', '^', '@', '<', '>', '<=', '>=', '==', '!=', ' and ', ' or ',
                          ' is ', ' is not ', ' in ', ' not in ', ' if y else '])
UNOPS = st.sampled_from(['-', '+', '~', 'not ', 'await '])


def exprs(depth=3):
    if depth <= 0:
        return ATOMS
    sub = exprs(depth - 1)
    sp = st.sampled_from(['', ' ', ' ', '  '])
    return st.one_of(
        ATOMS,
        st.builds(lambda a, s1, op, s2, b: a + s1 + op + s2 + b, sub, sp, BINOPS, sp, sub),
        st.builds(lambda op, a: '%s(%s)' % (op, a) if op != 'await ' else '(%s)' % a, UNOPS, sub),
        st.builds(lambda a: '(' + a + ')', sub),
        st.builds(lambda f, n, a: '%s(%s := %s)' % (f, n, a), NAMES, st.sampled_from(['x', 'y', 'n']), sub),
        st.builds(lambda f, n, a: '%s(a, (%s := %s))' % (f, n, a), NAMES, st.sampled_from(['x', 'y', 'n']), sub),
        st.builds(lambda f, n, a, b: '%s(%s := %s, %s)' % (f, n, a, b), NAMES, st.sampled_from(['x', 'y', 'n']), sub, sub),
        st.builds(lambda a, b: '[(lambda: (q := %s)) for i in %s]' % (a, b), sub, NAMES),
        # unparenthesised assignment expressions (sets: 3.9+, subscripts: 3.10+; the reference decides)
        st.builds(lambda f, n, a: '%s[%s := %s]' % (f, n, a), NAMES, st.sampled_from(['x', 'y', 'n']), sub),
        st.builds(lambda f, n, a: '%s[%s := %s, 1]' % (f, n, a), NAMES, st.sampled_from(['x', 'y', 'n']), sub),
        st.builds(lambda n, a, b: '{%s := %s, %s}' % (n, a, b), st.sampled_from(['x', 'y', 'n']), sub, sub),
        st.builds(lambda n, a, b: '{%s, %s := %s}' % (b, n, a), st.sampled_from(['x', 'y', 'n']), sub, sub),
        st.builds(lambda n, a: '{%s := %s for i in y}' % (n, a), st.sampled_from(['x', 'y', 'n']), sub),
        st.builds(lambda n, a: '[%s := %s, 2]' % (n, a), st.sampled_from(['x', 'y', 'n']), sub),
        st.builds(lambda a, b: '[*%s, *%s][0]' % (a, b), NAMES, NAMES),
        st.builds(lambda f, a, b: '%s(%s, k=%s)' % (f, a, b), NAMES, sub, sub),
        st.builds(lambda f, a: '%s(*%s, **%s)' % (f, a, a), NAMES, NAMES),
        st.builds(lambda a, b: '%s[%s]' % (a, b), NAMES, sub),
        st.builds(lambda a, b, c: '%s[%s:%s, ::2]' % (a, b, c), NAMES, sub, sub),
        st.builds(lambda a, b: '%s.%s' % (a, b), NAMES, NAMES),
        st.builds(lambda a, b: '[%s for %s in y if %s]' % (a, b, a), sub, NAMES),
        st.builds(lambda a, b: '{%s: %s for %s in y}' % (b, a, b), sub, NAMES),
        st.builds(lambda a, b: '(%s for %s in y for z in %s)' % (a, b, b), sub, NAMES),
        st.builds(lambda a, b: '(lambda %s, *a, k=1, **kw: %s)' % (b, a), sub, NAMES),
        st.builds(lambda a, b: '(%s,\n    %s)' % (a, b), sub, sub),
        st.builds(lambda f, a, b, c: '%s(\n    %s,\n    %s,\n    %s,\n)' % (f, a, b, c), NAMES, NAMES, sub, NAMES),
        st.builds(lambda a, b: '[\n%s,\n  %s\n]' % (a, b), NAMES, sub),
        st.builds(lambda a, b: '%s \\\n    + %s' % (a, b), sub, sub),
    )


def _indent(block, unit):
    return ''.join(unit + l if l.strip() else l for l in ref_split_lines(block, True))


_MOD = st.sampled_from(['a', 'b', 'os', 'pkg', 'x', 'path', '__future__', 'mod'])
_FEATURES = ['division', 'annotations', 'print_function', 'generator_stop', 'unicode_literals', 'absolute_import', 'with_statement',
             'nested_scopes', 'generators']      # barry_as_FLUFL: listed finding F-C12-18, excluded by construction (its replay still runs)


@st.composite
def imports(draw):
    """Import statements as a product of their parts: `import` with 1-3 dotted names and optional aliases; `from` with relative
    level 0-5 (three dots are one `...` token), dotted module of depth 0-3, star / 1-3 names with optional aliases, optional
    parentheses and trailing comma; `from __future__ import <feature> [as alias]`.  The reference decides validity."""
    def dotted(lo, hi):
        return '.'.join(draw(st.lists(_MOD, min_size=lo, max_size=hi)))

    def alias():
        return draw(st.sampled_from(['', '', ' as r', ' as _q', ' as x']))
    kind = draw(st.integers(0, 9))
    if kind <= 2:
        items = [dotted(1, 3) + alias() for _ in range(draw(st.integers(1, 3)))]
        return 'import ' + ', '.join(items) + '\n'
    if kind == 3:
        names = draw(st.lists(st.sampled_from(_FEATURES), min_size=1, max_size=3, unique=True))
        body = ', '.join(n + alias() for n in names)
        if draw(st.booleans()):
            body = '(' + body + draw(st.sampled_from(['', ','])) + ')'
        return 'from __future__ import ' + body + '\n'
    level = draw(st.sampled_from([0, 0, 1, 1, 2, 3, 3, 4, 5]))
    mod = dotted(0 if level else 1, 3)
    sep = draw(st.sampled_from(['', '', ' ']))
    head = 'from ' + '.' * level + (sep if level else '') + mod
    what = draw(st.integers(0, 5))
    if what == 0:
        body = '*'
    else:
        body = ', '.join(draw(_MOD) + alias() for _ in range(draw(st.integers(1, 3))))
        if what >= 4:
            body = '(' + body + draw(st.sampled_from(['', ',', ',\n'])) + ')'
    return head + ' import ' + body + '\n'


def stmts(depth=2):
    e = exprs(2)
    simple = st.one_of(
        st.builds(lambda n, v: '%s = %s\n' % (n, v), NAMES, e),
        st.builds(lambda n, m, v: '%s = %s = %s\n' % (n, m, v), NAMES, NAMES, e),
        st.builds(lambda n, op, v: '%s %s= %s\n' % (n, op, v), NAMES, st.sampled_from(['+', '-', '*', '/', '//', '%', '**', '>>', '<<', '&', '|', '^', '@']), e),
        st.builds(lambda n, v: '%s: int = %s\n' % (n, v), NAMES, e),
        st.builds(lambda n: '%s: "ann"\n' % n, NAMES),
        st.builds(lambda a, b, v: '%s, *%s = %s\n' % (a, b, v), NAMES, NAMES, e),
        st.builds(lambda a, v: '(%s, [b, c]), d = %s\n' % (a, v), NAMES, e),
        st.builds(lambda v: '%s\n' % v, e),
        st.builds(lambda v: 'assert %s, "m"\n' % v, e),
        st.builds(lambda n: 'del %s, y[0], z.a\n' % n, NAMES),
        st.builds(lambda n, m: 'import %s.%s as q\n' % (n, m), st.sampled_from(['os', 'a', 'pkg']), st.sampled_from(['path', 'b', 'mod'])),
        st.builds(lambda n, m: 'from .%s import (%s as r,\n    s)\n' % (n, m), st.sampled_from(['', 'a', '.a.b']), st.sampled_from(['x', 'y'])),
        imports(), imports(),
        st.just('[*a, *b][0] = 1\n'), st.just('[*a, *b][0], c = 1, 2\n'), st.just('x = [i for i in y]; del x\n'),
        st.builds(lambda n: ''.join(' ' * i + 'if x:\n' for i in range(n)) + ' ' * n + 'pass\n', st.integers(15, 21)),
        st.builds(lambda n: 'def f():\n' + ''.join(' ' * (i + 1) + 'while x:\n' for i in range(n)) + ' ' * (n + 1) + 'pass\n', st.integers(17, 20)),
        st.just('for q in z:\n    try:\n        pass\n    finally:\n        for w in z:\n            continue\n'),
        st.just('from . import *\n'), st.just('import numpy as np, pathlib\n'), st.just('import a.b as c, d.e, f as g, h\n'),
        st.just('from a import (b as c, d, e as f)\n'), st.just('from __future__ import annotations\n'), st.just('pass\n'),
        st.builds(lambda a, b: 'x = 1; %s; y = 2\n' % a.strip(), e, e),
        st.builds(lambda v: 'raise E(%s) from None\n' % v, e),
        st.builds(lambda v: 'print(%s)  # comment\n' % v, e),
        st.builds(lambda v: '# only a comment\n\n%s\n' % v, e),
    )
    if depth <= 0:
        return simple
    sub = st.lists(stmts(depth - 1), min_size=1, max_size=3).map(''.join)
    unit = st.sampled_from(['    ', '    ', '  ', '\t', ' ', '        '])
    return st.one_of(
        simple, simple,
        st.builds(lambda c, b, u: 'if %s:\n%s' % (c, _indent(b, u)), e, sub, unit),
        st.builds(lambda c, b, b2, u: 'if %s:\n%selif y:\n%selse:\n%s' % (c, _indent(b, u), _indent(b2, u), _indent('pass\n', u)), e, sub, sub, unit),
        st.builds(lambda n, it, b, u: 'for %s in %s:\n%selse:\n%s' % (n, it, _indent(b + 'continue\n', u), _indent('pass\n', u)), NAMES, e, sub, unit),
        st.builds(lambda c, b, u: 'while %s:\n%s' % (c, _indent(b + 'break\n', u)), e, sub, unit),
        st.builds(lambda b, b2, u: 'try:\n%sexcept (A, B) as e:\n%sexcept C:\n%sfinally:\n%s' % (_indent(b, u), _indent(b2, u), _indent('raise\n', u), _indent('pass\n', u)), sub, sub, unit),
        st.builds(lambda c, b, u: 'with %s as w, z:\n%s' % (c, _indent(b, u)), e, sub, unit),
        st.builds(lambda n, r, b, u: '@dec\n@d.e(1)\ndef %s(a, b: int = 1, *args, c, d=%s, **kw) -> "r":\n%s' % (n, r, _indent('"""doc"""\n' + b + 'return a\n', u)), NAMES, e, sub, unit),
        st.builds(lambda n, b, u: 'def %s(a, /, b, *, c):\n%s' % (n, _indent(b + 'yield a\nyield from b\n', u)), NAMES, sub, unit),
        st.builds(lambda n, b, u: 'async def %s(a):\n%s' % (n, _indent(b + 'await a\nasync for i in a:\n    pass\nasync with a as b:\n    pass\nreturn [i async for i in a]\n', u)), NAMES, sub, unit),
        st.builds(lambda n, b, u: 'async def %s(a, /, b=1):\n%s' % (n, _indent('async with a as c:\n    if c:\n        return 1\n    raise E\nasync for i in a:\n    return i\nelse:\n    raise F\n' + b + 'return 3\n', u)), NAMES, sub, unit),
        st.builds(lambda n, b, u: 'def %s(a, b=1, /):\n%s' % (n, _indent(b + 'return (lambda x, /, y=2: x)(a)\n', u)), NAMES, sub, unit),
        st.builds(lambda n, b, u: 'def %s[T, *Ts, **P](xs: list[T], *a: *Ts) -> T:\n%s' % (n, _indent('"doc"\n' + b + 'return xs[0]\n', u)), NAMES, sub, unit),
        st.builds(lambda n, b, u: 'class %s[T: int, U = str](Base[T]):\n%s' % (n, _indent('async def get[V](self, k: V) -> V | None:\n    yield k\n' + b, u)), NAMES, sub, unit),
        st.builds(lambda n, b, u: 'class %s[T]:\n%s' % (n, _indent('def m[K](self, k: K) -> tuple[T, K]:\n    raise E\n' + b, u)), NAMES, sub, unit),
        st.builds(lambda b, u: 'for q in z:\n%s' % _indent('try:\n    pass\nfinally:\n    continue\n' + b, u), sub, unit),
        st.builds(lambda n, b, u: 'class %s(Base, metaclass=M):\n%s' % (n, _indent('"doc"\nx: int = 1\n' + b, u)), NAMES, sub, unit),
        st.builds(lambda n, b, u: 'def %s():\n%s' % (n, _indent('global g1, g2\ng1 = 1\ndef inner():\n    nonlocal v\n    v = 2\nv = 1\n' + b, u)), NAMES, sub, unit),
        st.builds(lambda n, pre, u: 'def %s():\n%s' % (n, _indent(pre + 'global gx\ngx = 1\n', u)), NAMES,
                  st.sampled_from(['[gx for gx in y]\n', 'lambda gx: gx\n', '{gx: 1 for gx in y}\n', 'f(gx=1)\n', 'import a.gx\n', 'from gx import z\n',
                                   'class C:\n    gx = 1\n', 'def gx2(gx): pass\n', 'y.gx = 1\n', '@a.gx\ndef h(): pass\n', 'print(f"gx")\n']), unit),
        st.builds(lambda n, v, u: 'if (%s := %s) > 1:\n%s' % (n, v, _indent('pass\n', u)), st.sampled_from(['x', 'y', 'n']), e, unit),
        st.builds(lambda c, b, u: 'def g():\n%s' % _indent('x = yield\nlambda: (yield)\nreturn %s\n' % c, u), e, sub, unit),
    )


# ---- (a2) one name in every syntactic role, followed by a global / nonlocal declaration of it -------------------------------
# The declaration rules ("used / assigned before global", "no binding for nonlocal") look at every occurrence of the name in the
# function; most occurrences are not variables of that function at all (attribute tails, keyword names, parameters of nested scopes,
# import parts, type parameters, literal text ...).  Whether a combination is legal is decided by the reference, never here.
_ROLES = ['[gx for gx in y]\n', 'lambda gx: gx\n', '{gx: 1 for gx in y}\n', 'f(gx=1)\n', 'import a.gx\n', 'from gx import z\n',
          'class C:\n    gx = 1\n', 'def gx2(gx): pass\n', 'y.gx = 1\n', '@a.gx\ndef h(): pass\n', 'print(f"gx")\n',
          'def gx2(gx: int): pass\n', 'def gx2(*, gx: int = 3): pass\n', 'def gx2(*gx, **k): pass\n', 'def gx2(*a: int, **gx: str): pass\n',
          'async def gx2(a, /, gx=1): pass\n', 'lambda gx=1: 0\n', 'lambda *gx: 0\n', 'lambda *, gx: 0\n', 'x = a.b.gx\n', 'a.gx()\n',
          'a[0].gx = 1\n', 'del a.gx\n', 'for a.gx in y: pass\n', 'with y as a.gx: pass\n', 'import gx2.gx as q\n', 'import q.gx.r\n',
          'from a import gx as q\n', 'from .gx import q\n', 'from .. import q as r\n', 'from a.gx.b import q\n', 'class C(k, gx=1): pass\n',
          'class C(metaclass=a.gx): pass\n', 'try: pass\nexcept E as e: e.gx\n', '[y for y in z if y.gx]\n', 'x: "gx" = 1\n',
          'def h() -> "gx": pass\n', 'def h[gx](a: gx): pass\n', 'class C[gx]: pass\n', 'class C[T: gx]: pass\n', 'type A[gx] = list[gx]\n',
          'print(f"{a.gx}")\n', 'print(f"{a!r:gx}")\n', 'print(f"{a:{b.gx}}")\n', '@a.b.gx(1)\nclass K: pass\n', '@a.gx.c\nasync def h(): pass\n',
          '@(a.gx)\ndef h(): pass\n', '@a[0].gx\ndef h(): pass\n', 'lambda: gx\n', '[gx2 for y in z for gx in y]\n', '(y for y in z if (lambda gx: gx)(y))\n',
          'f(**{"gx": 1})\n', 'x = {"gx": gx2}\n', 'def h(a=lambda gx: gx): pass\n', 'class C:\n    def gx(self): pass\n', 'class C:\n    import gx\n',
          'def h():\n    gx = 1\n', 'def h():\n    global gx\n', 'async def h():\n    async for gx in y: pass\n', 'x = a.gx if a.gx else b.gx\n',
          'gx2 = 1\n', 'pass\n', 'a.gx: int = 1\n', 'a.gx += 1\n', 'x = [a.gx for a in y]\n', 'assert a.gx, b.gx\n', 'raise a.gx from b.gx\n',
          'return a.gx\n', 'yield a.gx\n', 'await a.gx\n', 'x = a . gx\n', 'x = a.\\\n  gx\n', 'import gx\n', 'from a import gx\n', 'import a as gx\n',
          'def gx(): pass\n', 'class gx: pass\n', 'gx = 1\n', 'print(gx)\n', 'for gx in y: pass\n', 'with y as gx: pass\n', '[(gx := 1) for y in z]\n']


@st.composite
def name_roles(draw):
    pre = ''.join(draw(st.lists(st.sampled_from(_ROLES), min_size=1, max_size=2)))
    decl = draw(st.sampled_from(['global gx\n', 'global gx\n', 'nonlocal gx\n', 'global gx2, gx\n', 'nonlocal gx\nglobal gx2\n']))
    post = draw(st.sampled_from(['', '', 'gx = 1\n', 'print(gx)\n', 'del gx\n', 'return gx\n']))
    order = draw(st.integers(0, 5))
    body = pre + decl + post if order else decl + pre + post     # mostly: occurrence first, declaration after it
    unit = draw(st.sampled_from(['    ', '  ', '\t']))
    head = draw(st.sampled_from(['def f():\n', 'def f():\n', 'async def f():\n', 'def f(a, *b, c=1):\n']))
    fn = head + _indent(body, unit)
    wrap = draw(st.integers(0, 5))
    if wrap == 0:       # an enclosing function that binds the name (what nonlocal needs)
        how = draw(st.sampled_from(['gx = 1\n', 'import gx\n', 'def gx(): pass\n', 'for gx in y: pass\n', 'gx: int\n', 'from a import b as gx\n', '']))
        hd = draw(st.sampled_from(['def o():\n', 'def o(gx):\n', 'def o(*, gx: int = 1):\n', 'async def o():\n']))
        fn = hd + _indent(how + fn + 'return f\n', unit)
    elif wrap == 1:
        fn = 'class K:\n' + _indent(fn, unit)
    elif wrap == 2:
        fn = 'def o():\n' + _indent('gx = 1\nclass K:\n' + _indent(fn, unit), unit)
    return fn


@st.composite
def future_imports(draw):
    names = draw(st.lists(st.sampled_from(_FEATURES), min_size=1, max_size=3, unique=True))
    body = ', '.join(n + draw(st.sampled_from(['', '', ' as r', ' as _q', ' as division'])) for n in names)
    if draw(st.booleans()):
        body = '(' + body + draw(st.sampled_from(['', ','])) + ')'
    doc = draw(st.sampled_from(['', '', '"doc"\n', '# c\n\n', '"a" "b"\n']))
    return doc + 'from __future__ import ' + body + '\n'


def programs():
    body = st.lists(stmts(2), min_size=1, max_size=5).map(''.join)
    return st.one_of(body, body, body, st.builds(lambda f, b: f + b, future_imports(), body))


# ---- (b) token-level mutations ---------------------------------------------------------------------

_SWAPS = [(r'\b\d+\b', ['0', '1_0', '0x1f', '1.5', '1e3', '2j', '0o7']),
          (r'==', ['!=', '<=', '>=', ' is ', ' in ']), (r'\+', ['-', '*', '@', '//', '**']),
          (r'\band\b', ['or']), (r'"[^"\\\n]*"', ["'s'", 'b"b"', 'r"r"', 'f"{x}"', '"""t"""']),
          (r'\bself\b', ['é', 'x']), (r'\(\)', ['(x)', '(*a)', '(**k)', '(x, y=1)']),
          (r':\n', [':  # c\n']), (r'\n', ['\n\n', '\n# c\n']),
          # line ends: a continuation followed by a blank / whitespace-only line or the end of the file, semicolons,
          # trailing blanks, form feed lines (the reference decides which of these are still programs)
          (r'\n', [' \\\n\n', '\\\n\n', ' \\\n   \n', ' \\\r\n\r\n', ';\n', ' ;\n', '  \n', '\n\f\n', '\n    \n', '\r\n', '\r']),
          (r'\n\Z', ['', ' \\\n', '\n\\\n', '  ', '\n\n\n', ' # c']),
          (r', ', [',\n    ', ', \\\n  ', ',  # c\n ', ',']), (r' = ', [' = (\n    ', ' = \\\n  ', ' += ']),
          (r'\bNone\b', ['...', '(yield)', 'lambda: 0', '[i for i in x]', 'f"{x!r:>{w}}"']),
          (r'\bdef\b', ['async def']), (r'\breturn\b', ['return *a,', 'yield', 'yield from', 'return await'])]


@st.composite
def token_mutated(draw, base):
    code = draw(base)
    for _ in range(draw(st.integers(1, 3))):
        pat, reps = _SWAPS[draw(st.integers(0, len(_SWAPS) - 1))]
        ms = list(re.finditer(pat, code))
        if not ms:
            continue
        m = ms[draw(st.integers(0, len(ms) - 1))]
        rep = reps[draw(st.integers(0, len(reps) - 1))]
        code = code[:m.start()] + rep + code[m.end():]
    return code


def candidates(kinds=('repo',), deriv=None):
    win = stmt_window(kinds)
    pool = [win, win, token_mutated(win), token_mutated(win), programs(), programs(), token_mutated(programs()),
            T.list_context(), st.lists(T.list_context(), min_size=1, max_size=3).map('\n'.join), name_roles()]
    if deriv is not None:
        pool.append(deriv)
    return st.one_of(*pool)


@st.composite
def derived_program(draw, version):
    """G-DERIV as a candidate source: a random derivation of file_input of the grammar of ``version``,
    rendered with generated spellings/layout (validity is decided by the reference afterwards)."""
    from . import deriv as D
    m = D.model(version)
    ch = D.Choices(draw(st.lists(st.integers(0, 255), min_size=10, max_size=120)))
    tree = m.derive('file_input', ch, draw(st.integers(3, 8)))
    layout = draw(st.one_of(st.just([]), st.lists(st.integers(0, 255), min_size=1, max_size=60)))
    text, _ = D.Renderer(m, D.Choices(layout), plain=not layout).render(D.terminals(tree))
    # make the statement context friendlier to the compiler: wrap in an async function half of the time
    if draw(st.booleans()):
        from ..common import ref_split_lines
        text = 'async def _w():\n' + ''.join('    ' + l if l.strip() else l for l in ref_split_lines(text, True)) + '\n'
    return text


def versioned_candidates(kinds=('repo',)):
    """{'version': V, 'code': ...} with grammar-derived programs of V's own grammar in the mix."""
    base = candidates(kinds)

    @st.composite
    def gen(draw):
        v = draw(T.version())
        if draw(st.integers(0, 9)) == 0:
            # a text that sits on a version guard, with one of the two versions around it
            e = draw(T.version_sensitive())
            return {'version': draw(st.sampled_from(e['versions'])), 'code': e['text'] + '\n'}
        if draw(st.integers(0, 4)) == 0:
            code = draw(derived_program(v))
        else:
            code = draw(base)
        return {'version': v, 'code': code}
    return gen()
