"""G-TEXT / G-CORPUS / G-MUT: Hypothesis strategies for adversarial text (DESIGN §1.2).
Everything is construction, nothing is filtered."""
import glob
import os
import re

from hypothesis import strategies as st

from ..common import REPO, VERSIONS, ref_split_lines

KEYWORDS = ['False', 'None', 'True', 'and', 'as', 'assert', 'async', 'await', 'break', 'class',
            'continue', 'def', 'del', 'elif', 'else', 'except', 'finally', 'for', 'from', 'global',
            'if', 'import', 'in', 'is', 'lambda', 'nonlocal', 'not', 'or', 'pass', 'raise',
            'return', 'try', 'while', 'with', 'yield', 'print', 'exec', 'match', 'case', 'type']
OPERATORS = ['(', ')', '[', ']', '{', '}', ',', ':', '.', ';', '@', '=', '->', '+=', '-=', '*=',
             '/=', '//=', '%=', '@=', '&=', '|=', '^=', '>>=', '<<=', '**=', '+', '-', '*', '/',
             '//', '%', '**', '<<', '>>', '&', '|', '^', '~', '<', '>', '<=', '>=', '==', '!=',
             '<>', ':=', '...', '!', '$', '?', '`']
STRING_OPENERS = ['"', "'", '"""', "'''"]
STRING_PREFIXES = ['', 'b', 'B', 'r', 'R', 'u', 'U', 'f', 'F', 'rb', 'bR', 'Rb', 'BR', 'rf', 'fr',
                   'Rf', 'fR', 'FR', 'ur', 'bf', 'fb', 'ru']
NUMBERS = ['09e1', '09j', '007J', '01j', '0_1j', '08e+3', '010e1j', '00_7E-2J', '09.5', '1.5j', '1.J', '.5j', '1e3j', '2.5E-3J', '0', '1', '10', '1_0', '0_0', '1__0', '1_', '0x1f', '0X_f', '0o17', '0O8', '0b101',
           '0B2', '1.', '.5', '1.5', '1e5', '1E-5', '1.e5j', '1j', '1J', '0_7', '07', '1e', '0x',
           '1_000.000_1', '1if', '1_a', '1.0_', '0xg', '1e+']
NAMES = ['x', 'y', 'foo', 'l', 'O', 'I', 'a1', '_', '__x__', 'é', 'Ünï', '名前', '²', 'x²', 'ª', 'á',
         ' ', 'x\xa0y', 'self', 'cls', 'Async', 'match', 'case', 'type', '_soft']
LAYOUT = [' ', '  ', '    ', '        ', '\t', ' \t', '\t ', '\f', '\n', '\r\n', '\r', '\n\n',
          '\\\n', '\\\r\n', '\\\r', '\\', '\\ \n', ' \\\n  ', '\n    ', '\n  ', '\n\t', '\n ']
ODD = ['\ud800', '\udfff', '\x0b', '\x1c', '\x1d', '\x1e', '\x1f', '\x85', '\xa0', ' ', ' ', '\x00', '　',
       '﻿', '​', '\x7f', '\x1b']
COMMENTS = ['#', '# c', '#\n', '# comment\n', '#\f', '#\fx', '# \f\n', '#!\n', '# coding: utf-8\n',
            '#\\\n', "#'", '#"""', '#{']
FSTRING_BITS = ['{', '}', '{{', '}}', '!r', '!s', '!a', '!', ':', ':>10', ':{', '=', '{x}', '{x!r}',
                '{x:>{w}}', '{x=}', '{x:{y:{z}}}', "{'", '{"', '\\{', '\\N{DASH}', '\\N{', '{\n', '{#',
                '{*x}', '{lambda x:1}', '{x:=1}', '{x!r:^{w}.{p}}', '{:}', '{!r}', '{ }', '{;}', '{\\']
STMT_STARTS = ['def f(*,): pass', 'lambda *,: 0', 'def f(*, /): pass', 'def f(a, /, b=1, *, c):', 'def f(a, /):', 'lambda a, /, b: ', 'def f(a, b=1, /,):', 'import a as b, c', 'from __future__ import *',
               'try:\n  pass\nfinally:\n  continue', 'for x in y:\n try:\n  pass\n finally:\n  continue\n', '[(x := 1) for [a, b] in c]', 'async with a:\n  return 1',
               'def f(', 'def f():', 'class A:', 'class A(', 'if x:', 'elif x:', 'else:', 'for x in y:',
               'while x:', 'try:', 'except:', 'except E as e:', 'finally:', 'with a as b:', 'async def f():',
               'async for x in y:', 'async with a:', '@dec', 'lambda:', 'lambda x, *a, **k: ', 'return ',
               'yield ', 'yield from ', 'await ', 'import a.b as c', 'from . import x', 'from .. a import (b,',
               'global x', 'nonlocal x', 'del x', 'assert x, y', 'raise E from e', 'pass', 'break', 'continue',
               'x: int = 1', 'x = yield', '*a, b = c', 'print >>x, y', 'exec "x" in y', 'match x:', 'case _:',
               'type X = int', 'x[1:2, ::3]', 'f(*a, **k, x=1)', '[x for x in y if z]', '{k: v for k in y}',
               '{*a, *b}', 'x if y else z', 'not x', 'x @ y', 'a.b.c', 'x = y = z', 'x += 1', 'x := 1',
               '(yield)', 'a < b < c', 'a is not b', 'a not in b', '-x ** -y', '~x', '...']

_kw = st.sampled_from(KEYWORDS).map(lambda k: k + ' ')
_op = st.sampled_from(OPERATORS)
_num = st.sampled_from(NUMBERS)
_name = st.sampled_from(NAMES)
_layout = st.sampled_from(LAYOUT)
_odd = st.sampled_from(ODD)
_comment = st.sampled_from(COMMENTS)
_fbit = st.sampled_from(FSTRING_BITS)
_stmt = st.sampled_from(STMT_STARTS)
_quote = st.builds(lambda p, q: p + q, st.sampled_from(STRING_PREFIXES), st.sampled_from(STRING_OPENERS))
_fquote = st.builds(lambda p, q: p + q, st.sampled_from(['f', 'F', 'rf', 'fr', 'Rf', 'FR']),
                    st.sampled_from(STRING_OPENERS))
_closed_string = st.builds(
    lambda p, q, body: p + q + body + q,
    st.sampled_from(STRING_PREFIXES), st.sampled_from(STRING_OPENERS),
    st.sampled_from(['', 's', 'a b', '\\n', '\\', '\\\n', '\n', '{x}', '\\x41', '\\N{DASH}', "\\'", '\\"',
                     '{', '}', '#', 'é', '\r', '\\\r\n', '\f',
                     # escapes whose validity depends on the kind of literal (bytes / str / raw)
                     '\\N{foo}', '\\u12', '\\U0001', '\\x4', '\\8', '\\N', '\\u00e9', '\\777']))
_anytext = st.text(max_size=6)


def fragment(weights=None):
    """One lexical fragment.  ``weights`` duplicates classes to bias the mix."""
    classes = {
        'kw': _kw, 'op': _op, 'num': _num, 'name': _name, 'layout': _layout, 'odd': _odd,
        'comment': _comment, 'fbit': _fbit, 'stmt': _stmt, 'quote': _quote, 'fquote': _fquote,
        'str': _closed_string, 'any': _anytext,
    }
    w = {'kw': 3, 'op': 4, 'num': 1, 'name': 2, 'layout': 5, 'odd': 1, 'comment': 1, 'fbit': 1,
         'stmt': 3, 'quote': 1, 'fquote': 1, 'str': 1, 'any': 1}
    if weights:
        w.update(weights)
    pool = []
    for k, n in w.items():
        pool.extend([classes[k]] * n)
    return st.one_of(*pool) if len(set(map(id, pool))) > 1 else pool[0]


def soup(max_frags=25, weights=None):
    return st.lists(fragment(weights), max_size=max_frags).map(''.join)


# ---- nesting builders (C02: combined depth <= 100) -------------------------------------------

_OPENERS = ['(', '[', '{', 'f(', 'x[', '(lambda: ', '[x for x in ', '{x: ', 'f"{', "f'''{", '-', 'not ', '~',
            'await ', 'lambda: ', '*', '(yield ', 'x if ', '(x, ', 'x = ', 'a.b(', '@', 'x or ']
_CLOSERS = {'(': ')', '[': ']', '{': '}', 'f(': ')', 'x[': ']', '(lambda: ': ')', '[x for x in ': ']',
            '{x: ': '}', 'f"{': '}"', "f'''{": "}'''", '(yield ': ')', '(x, ': ')', 'a.b(': ')'}
_OPENER_WEIGHT = {'(lambda: ': 2, '[x for x in ': 2, 'f"{': 2, "f'''{": 2, '(yield ': 2, 'a.b(': 2, 'f(': 2, 'x[': 2,
                  'lambda: ': 1, 'await ': 1, 'x if ': 1}
_BLOCKS = ['if x:', 'def f():', 'class A:', 'while x:', 'for x in y:', 'try:', 'with a:', 'else:', 'async def f():',
           'elif y:', 'except:', 'finally:', 'if x', 'def f(', 'x = (', 'lambda:', 'match x:', 'case y:']


@st.composite
def nested(draw, max_depth=100):
    """Bracket/prefix-operator nesting and indentation ladders with total depth <= max_depth."""
    total = draw(st.integers(0, max_depth))
    ladder = draw(st.integers(0, total))
    budget = total - ladder
    unit = draw(st.sampled_from([' ', '  ', '    ', '\t']))
    newline = draw(st.sampled_from(['\n', '\n', '\r\n', '\r']))
    out = []
    mono = draw(st.booleans())
    blk = draw(st.sampled_from(_BLOCKS))
    for d in range(ladder):
        b = blk if mono else draw(st.sampled_from(_BLOCKS))
        out.append(unit * d + b + newline)
    ind = unit * ladder
    opens = []
    op1 = draw(st.sampled_from(_OPENERS))
    while budget > 0:
        o = op1 if mono else draw(st.sampled_from(_OPENERS))
        w = _OPENER_WEIGHT.get(o, 1)
        if w > budget:
            break
        budget -= w
        opens.append(o)
    core = draw(st.sampled_from(['x', '', '1', 'pass', '$', 'x y', '\n', ':', 'yield', '"', 'f"{']))
    close_mode = draw(st.sampled_from(['all', 'none', 'some', 'wrong']))
    closers = []
    for o in reversed(opens):
        c = _CLOSERS.get(o, '')
        if close_mode == 'none':
            c = ''
        elif close_mode == 'some' and draw(st.booleans()):
            c = ''
        elif close_mode == 'wrong' and c:
            c = draw(st.sampled_from([')', ']', '}', c, c]))
        closers.append(c)
    out.append(ind + ''.join(opens) + core + ''.join(closers))
    tail = draw(st.sampled_from(['', '\n', '\nx\n', '\n' + unit + 'y\n', '\n' + ind[:-1] + 'z\n']))
    out.append(tail)
    # dedent ladder back down, sometimes to inconsistent levels
    if draw(st.booleans()):
        for d in range(ladder, 0, -max(1, draw(st.integers(1, 7)))):
            out.append(unit * d + draw(st.sampled_from(['pass', 'x', 'else:', ')', 'y = 1'])) + newline)
    return ''.join(out), total


# ---- corpus ------------------------------------------------------------------------------

_corpus_cache = {}


def corpus_files(kind='repo'):
    """Deterministic list of (path) of real-world Python files."""
    if kind in _corpus_cache:
        return _corpus_cache[kind]
    files = []
    if kind == 'repo':
        files += sorted(glob.glob(os.path.join(REPO, 'parso', '**', '*.py'), recursive=True))
        files += sorted(glob.glob(os.path.join(REPO, 'test', '**', '*.py'), recursive=True))
    else:  # stdlib of a given pyenv version, e.g. 'stdlib3.12'
        mm = kind[len('stdlib'):]
        for d in sorted(glob.glob('/root/.pyenv/versions/%s.*' % mm)):
            lib = os.path.join(d, 'lib', 'python' + mm)
            files += sorted(glob.glob(os.path.join(lib, '**', '*.py'), recursive=True))
    files = [f for f in files if '/site-packages/' not in f]
    _corpus_cache[kind] = files
    return files


_text_cache = {}


def read_text(path):
    t = _text_cache.get(path)
    if t is None:
        with open(path, 'rb') as f:
            b = f.read()
        try:
            t = b.decode('utf-8')
        except UnicodeDecodeError:
            t = b.decode('latin-1')
        _text_cache[path] = t
    return t


_lines_cache = {}


def corpus_lines(path):
    l = _lines_cache.get(path)
    if l is None:
        l = _lines_cache[path] = ref_split_lines(read_text(path), True)
    return l


def dedent_lines(lines):
    ind = None
    for l in lines:
        s = l.lstrip(' \t')
        if not s.strip('\r\n') or s.startswith('#'):
            continue
        n = len(l) - len(s)
        ind = n if ind is None else min(ind, n)
    if not ind:
        return lines
    return [l[ind:] if l[:ind].strip(' \t') == '' else l.lstrip(' \t') for l in lines]


@st.composite
def corpus_window(draw, kinds=('repo',), max_lines=30, dedent=False):
    files = []
    for k in kinds:
        files += corpus_files(k)
    if not files:
        return 'x = 1\n'
    f = files[draw(st.integers(0, len(files) - 1))]
    lines = corpus_lines(f)
    a = draw(st.integers(0, max(0, len(lines) - 1)))
    n = draw(st.integers(1, max_lines))
    w = lines[a:a + n]
    if dedent:
        w = dedent_lines(w)
    return ''.join(w)


@st.composite
def mutated(draw, base, max_edits=3, weights=None):
    """G-MUT: insert / delete / replace / duplicate at arbitrary offsets or line boundaries."""
    text = draw(base)
    for _ in range(draw(st.integers(1, max_edits))):
        kind = draw(st.sampled_from(['ins', 'ins', 'del', 'rep', 'dupline', 'delline', 'swapnl', 'word', 'word', 'op']))
        n = len(text)
        if kind == 'ins':
            i = draw(st.integers(0, n))
            text = text[:i] + draw(fragment(weights)) + text[i:]
        elif kind == 'del' and n:
            i = draw(st.integers(0, n - 1))
            j = min(n, i + draw(st.integers(1, 8)))
            text = text[:i] + text[j:]
        elif kind == 'rep' and n:
            i = draw(st.integers(0, n - 1))
            j = min(n, i + draw(st.integers(1, 5)))
            text = text[:i] + draw(fragment(weights)) + text[j:]
        elif kind in ('dupline', 'delline'):
            lines = ref_split_lines(text, True)
            i = draw(st.integers(0, len(lines) - 1))
            if kind == 'dupline':
                lines.insert(draw(st.integers(0, len(lines))), lines[i])
            else:
                del lines[i]
            text = ''.join(lines)
        elif kind == 'word':
            # same-class token substitution: a word (name or keyword) becomes another word - reserved words in name positions
            # (x.if, def class, import a.in, f(lambda=1)) and names in keyword positions
            ws = list(re.finditer(r'[^\W\d]\w*', text))
            if ws:
                m = ws[draw(st.integers(0, len(ws) - 1))]
                text = text[:m.start()] + draw(st.sampled_from(_WORDS)) + text[m.end():]
        elif kind == 'op':
            ws = list(re.finditer(r'[-+*/%@&|^~<>=!.,:;()\[\]{}]+', text))
            if ws:
                m = ws[draw(st.integers(0, len(ws) - 1))]
                text = text[:m.start()] + draw(st.sampled_from(OPERATORS)) + text[m.end():]
        elif kind == 'swapnl':
            nl = draw(st.sampled_from(['\r\n', '\r', '\n']))
            text = re.sub(r'\r\n|\r|\n', lambda m: nl, text)
    return text


_WORDS = KEYWORDS + ['match', 'case', 'type', '_', 'print', 'exec', 'x', 'y', 'self', 'é', '__debug__', 'None', 'True', 'async', 'await']
_snippets = None


def semantic_snippets():
    """Upstream's list of syntactically/semantically invalid snippets (test/failing_examples.py): each one triggers a
    specific rule of the error finder.  Used as seeds for mutation, never as expectations."""
    global _snippets
    if _snippets is None:
        res = []
        path = os.path.join(REPO, 'test', 'failing_examples.py')
        try:
            import importlib.util
            spec = importlib.util.spec_from_file_location('_vf_failing_examples', path)
            mod = importlib.util.module_from_spec(spec)
            spec.loader.exec_module(mod)
            for name in dir(mod):
                v = getattr(mod, name)
                if isinstance(v, list) and v and all(isinstance(x, str) for x in v):
                    res.extend(v)
        except Exception:
            res = []
        res = sorted(set(res))
        _snippets = res or ['x = 1\n']
    return _snippets


def snippet():
    return st.integers(0, 10 ** 6).map(lambda i: semantic_snippets()[i % len(semantic_snippets())])


@st.composite
def derived_text(draw):
    """A random sentence of one of the shipped grammars (G-DERIV), rendered with generated layout."""
    from . import deriv as D
    v = draw(st.sampled_from(VERSIONS))
    m = D.model(v)
    ch = D.Choices(draw(st.lists(st.integers(0, 255), min_size=10, max_size=100)))
    tree = m.derive('file_input', ch, draw(st.integers(3, 8)))
    layout = draw(st.one_of(st.just([]), st.lists(st.integers(0, 255), min_size=1, max_size=40)))
    return D.Renderer(m, D.Choices(layout), plain=not layout).render(D.terminals(tree))[0]


BREAK_KEYWORDS = ['import y', 'return 1', 'pass', 'del x', 'def g(): pass', 'class B: pass', 'assert x', 'raise E', 'global z',
                  'with a: pass', 'for i in j: pass', 'while k: pass', 'try: pass', 'if c: pass', 'x = 2', 'yield', 'else:', 'finally:']


@st.composite
def bracket_then_dedent(draw):
    """An indentation ladder, then a line with an unclosed bracket (optionally broken inside, optionally followed by a
    statement prefix such as `; from m` or `; b`), then a line that starts with one of the tokenizer's break keywords at an
    indentation drawn anywhere between 0 and deeper than the ladder - including widths that match no open level."""
    unit = draw(st.sampled_from(['    ', '  ', '\t', '        ']))
    depth = draw(st.integers(0, 3))
    out = []
    for d in range(depth):
        out.append(unit * d + draw(st.sampled_from(['def f():', 'class A:', 'if x:', 'for a in b:', 'try:', 'while x:', 'with a:'])) + '\n')
    opener = draw(st.sampled_from(['foo(', 'x = [', 'y = {', 'f"{', "f'''{", 'bar(a, (', 'z = (1 +']))
    inner = draw(st.sampled_from(['a', 'a b', 'a, ', '', '1 +', 'a b c', 'lambda:', '*']))
    prefix = draw(st.sampled_from(['', '', '; from m', '; b', '; b;', ' from m', '; import', '; x =', ';', '; from . ', '; @dec']))
    out.append(unit * depth + opener + inner + prefix + draw(st.sampled_from(['\n', '\n', ' \\\n', '\r\n'])))
    width = draw(st.integers(0, len(unit) * depth + 4))
    out.append(' ' * width + draw(st.sampled_from(BREAK_KEYWORDS)) + '\n')
    for _ in range(draw(st.integers(0, 2))):
        out.append(' ' * draw(st.integers(0, len(unit) * depth + 2)) + draw(st.sampled_from(BREAK_KEYWORDS + [')', ']', '}', 'x', "'''"])) + '\n')
    return ''.join(out)


@st.composite
def fstring_interior(draw):
    """Text inside (unterminated / nested) f-strings: opener + inner bits (incl. odd whitespace, quotes, comments) +
    maybe the closing quote."""
    inner = draw(st.lists(st.one_of(_fbit, _fbit, _odd, _odd, _layout, _name, _op, _fquote, _num,
                                    st.sampled_from(["'", '"', "'''", '"""', '#', '\\', '\f', ' \f', '\t'])), max_size=8).map(''.join))
    pre = draw(st.sampled_from(['', 'x = ', '(', '  ']))
    p = draw(st.sampled_from(['f', 'F', 'rf', 'fr', 'Rf']))
    q = draw(st.sampled_from(STRING_OPENERS))
    close = draw(st.booleans())
    tail = draw(st.sampled_from(['', '\n', ' y\n', ')\n', '\ny = 1\n']))
    # an open replacement field, and whitespace of every kind directly before the closing quote
    head = draw(st.sampled_from(['', '', '{', '{x', '{x ', '{x:', '{x!r:{']))
    gap = draw(st.sampled_from(['', '', '\f', ' \f', '\f ', '\t', ' ', '\x0b', '\xa0', '\x1c', '\\\n']))
    return pre + p + q + head + inner + gap + (q if close else '') + tail


@st.composite
def pep8_layout(draw):
    """Top-level and nested def/class/decorator blocks separated by 0-3 blank lines and optional comment lines -
    the shapes the blank-line rules of the style checker look at."""
    out = []
    for _ in range(draw(st.integers(1, 4))):
        ind = draw(st.sampled_from(['', '', '    ']))
        if ind and not out:
            out.append('class K:\n')
        for _ in range(draw(st.integers(0, 3))):
            out.append('\n')
        for _ in range(draw(st.integers(0, 2))):
            out.append(ind + draw(st.sampled_from(['# comment', '#comment', '## x', '#: E302', '#!x'])) + '\n')
        for _ in range(draw(st.integers(0, 1))):
            out.append(draw(st.sampled_from(['\n', ''])))
        if draw(st.integers(0, 3)) == 0:
            out.append(ind + '@dec\n')
        out.append(ind + draw(st.sampled_from(['def f():', 'class C:', 'async def g():', 'def h(a, b=1):', 'x = 1', 'import os'])) + '\n')
        if out[-1].rstrip().endswith(':'):
            out.append(ind + '    ' + draw(st.sampled_from(['pass', 'return 1', 'x = 1  # c', '"""doc"""'])) + '\n')
    return ''.join(out)


# ---- list contexts x element shapes ----------------------------------------------------------
# Most semantic rules of the error finder / PEP 8 checker are written against "a comma separated list in some context"
# (arguments, parameters, targets, imported names, subscripts, displays, ...) and make assumptions about what an element
# looks like.  This builder takes the product: any context x 0-4 elements of any shape (valid or not).
LIST_CONTEXTS = ['f(%s)', 'x = f(%s)', 'f(a)(%s)', 'a.b(%s)', 'def f(%s): pass', 'async def f(%s): pass', 'lambda %s: 0',
                 'class A(%s): pass', '%s = 1', '%s = y = 2', '%s += 1', 'x: %s = 1', 'del %s', 'for %s in y: pass',
                 'async for %s in y: pass', 'with a as %s: pass', 'with %s: pass', 'with (%s): pass', 'import %s',
                 'from m import %s', 'from m import (%s)', 'from . import %s', 'global %s', 'nonlocal %s', 'return %s', 'yield %s',
                 'x = yield %s', 'await %s', 'x[%s]', 'x[%s] = 1', '[%s]', '{%s}', '(%s)', '[%s] = y', '(%s) = y',
                 'print(%s, sep="")', '@d(%s)\ndef f(): pass', '@%s\nclass A: pass', '[x for %s in y]', '{k: v for %s in y}',
                 '(x for x in %s)', 'assert %s', 'raise %s', 'raise E from %s', 'try: pass\nexcept (%s): pass',
                 'try: pass\nexcept %s as e: pass', 'try: pass\nexcept* %s: pass', 'type X[%s] = int', 'def f[%s](): pass',
                 'class A[%s]: pass', 'match x:\n case [%s]: pass', 'match x:\n case {%s}: pass', 'match x:\n case A(%s): pass',
                 'match %s:\n case _: pass', 'f"{%s}"', "f'{x:{%s}}'", 'if %s: pass', 'while %s: pass', 'x = %s', 'x = *%s',
                 'f(*%s)', 'f(**%s)', 'not %s', 'x if %s else y', 'lambda: %s', 'lambda x=%s: x', 'def f(a=%s): pass',
                 'def f(a: %s): pass', 'def f() -> %s: pass', '(%s for q in z)', '[%s for q in z]', '{%s for q in z}', '{%s: 1 for q in z}',
                 '[q for q in z if %s]', '(q for q in z for r in %s)', 'f(%s for q in z)', 'x = [%s for q in z]; global q', 'async with %s as w: pass',
                 'x = %s if a else b', 'x: int = %s', 'x = (yield %s)', 'print(f"{%s!r}")', 'class K(metaclass=%s): pass', 'a[%s:]', 'a[::%s]']
LIST_ELEMENTS = ['a', 'b', 'a.b', 'a[0]', 'a()', '(a)', '(a, b)', '[a, b]', '*a', '**k', '*a.b', '*(a)', '*a, b', 'a=1', 'b.c=1',
                 '(y)=1', '-a=1', 'lambda: 1=1', 'a := 1', '(a := 1)', 'a: int', 'a: int = 1', 'a if b else c', 'None', 'True',
                 '__debug__', '1', '"s"', 'b"s"', 'f"{a}"', '...', 'a for a in b', 'a async for a in b', 'await a', 'yield',
                 '(yield)', 'yield a', '/', '*', '*, a', 'a, /', 'a as b', 'a.b as c', '(a as b)', '**k=1', '*a=1', 'a=b=1',
                 'x for x in y if z', 'not a', '-a', 'a + b', 'a < b', 'a and b', '{a}', '{a: b}', '{**a}', '`a`', '$', '', 'a b',
                 'def', 'class', 'a=', '=1', 'a=*b', 'a=**b', '*', '**', 'a.b=c', 'a[0]=1', 'a()=1', 'x.y as z', 'a = 1', '()',
                 '[]', '{}', '1 + 1', '1 = 1', 'None = 1', 'True := 1', 'a.b := 1', 'a: b = c', '*a: int', '**k: int', 'a=1, b',
                 'self', 'cls', 'T: int', '*Ts', '**P', 'T = int', 'a | b', '_', 'A()', 'a.b()', 'k=v', '"k": v', '**rest',
                 'lambda: (yield)', 'lambda x: x', 'lambda *, x: x', 'async', 'await', 'print', 'exec', 'nonlocal', 'match', 'case',
                 # comprehension nestings (scope and await/async rules differ by the kind of the enclosing comprehension and by version)
                 '[await a for a in b]', '{await a for a in b}', '{a: await a for a in b}', '(await a for a in b)', '[a async for a in b]',
                 '{a async for a in b}', '(a async for a in b)', '[a for a in await b]', '[[await a for a in b] for c in d]',
                 '[a for a in b if await c]', '[(yield) for a in b]', '[a for a in (yield)]', '[a := 1 for a in b]', '[(c := a) for a in b]',
                 '[a for a in (c := b)]', '[lambda: (yield) for a in b]', '[*a for a in b]', '{**a for a in b}', '[a for a in b for a in c]',
                 '[a for a, in b]', '[a for *a, in b]', 'f(a for a in b)', 'f(a for a in b, c)', 'f(c, a for a in b)', '(await a)', 'await a()',
                 '(yield from a)', 'yield from a', 'a[b:=1]', 'a[*b]', 'a[*b, c]', '{*a, *b}', '[*a, *b]', '*a, *b', 'f"{a!r:>{w}}"', "f'{a['k']}'",
                 'f"{a=}"', 'f"{a:=1}"', "f'{\'a\'}'", 'rf"\\{a}"', '0_1', '1_000', '0o1_7', '1if a else b', 'a if b else c if d else e', 'print >>a, b']
# postfix expressions on compound atoms and comparisons between them (rules that look at `atom_expr` children, E711/E721 ...)
_BASES = ['(a)', '(a or b)', '[a, b]', '[1, 2]', '{a: b}', "{'k': 1}", '{a}', '"s"', 'f"{a}"', '"a" "b"', '(a, b)', '()', '[]', 'a', 'type(a)',
          '(f)', '(lambda: 0)', '[x for x in y]', 'None', 'True', '...', '1', 'a.b']
_TRAILERS = ['[0]', '(x)', '.y', '()', "['k']", '[0](x)', '(x)[0]', '.y.z', '[1:2]', '(*a)', '']
_CMP = ['==', '!=', '<', '>', '<=', '>=', ' is ', ' is not ', ' in ', ' not in ']
LIST_ELEMENTS += [b + t for b in _BASES for t in _TRAILERS[:6]]
LIST_ELEMENTS += ['%s%s %s %s' % (b, t, c.strip() if c.strip() in ('==', '!=', '<', '>', '<=', '>=') else c.strip(), r)
                  for b in _BASES[:12] for t in ('[0]', '(x)', '') for c in _CMP[:8] for r in ('1', 'None', 'c', 'type(b)', "'a'")][::7]

LIST_WRAPS = ['%s', '%s', '%s', 'def g():\n %s', 'async def g():\n %s', 'class C:\n %s', 'def g():\n def h():\n  %s',
              'for q in z:\n %s', 'if 1:\n %s\nelse:\n pass', 'try:\n %s\nfinally:\n pass', 'class C:\n def m(self):\n  %s',
              'async def g():\n async with a:\n  %s', 'lambda: [\n %s\n]' ]


@st.composite
def list_context(draw):
    ctx = draw(st.sampled_from(LIST_CONTEXTS))
    elems = draw(st.lists(st.sampled_from(LIST_ELEMENTS), min_size=0, max_size=4))
    sep = draw(st.sampled_from([', ', ', ', ',', ' , ', ',\n  ']))
    body = sep.join(elems) + draw(st.sampled_from(['', '', '', ',', ', ']))
    stmt = ctx % body
    wrap = draw(st.sampled_from(LIST_WRAPS))
    if '\n' in stmt and wrap != '%s':
        # re-indent a multi-line statement by the innermost indentation of the wrapper
        ind = wrap[:wrap.index('%s')].split('\n')[-1]
        stmt = stmt.replace('\n', '\n' + ind)
    return wrap % stmt + draw(st.sampled_from(['\n', '\n', '', '\n\n', '\r\n']))


def version():
    return st.sampled_from(VERSIONS)


_vs_pool = None


def version_sensitive():
    """{'text', 'versions': [A, B]}: texts of the list-context product on which parso's own result differs between the adjacent
    grammar versions A and B, i.e. texts that sit exactly on a version guard (precomputed by tools/mk_version_sensitive.py; a
    generator input, never an oracle)."""
    global _vs_pool
    if _vs_pool is None:
        import json
        with open(os.path.join(os.path.dirname(os.path.abspath(__file__)), 'version_sensitive.json'), encoding='utf-8') as fh:
            by = {}
            for e in json.load(fh):
                by.setdefault(tuple(e['versions']), []).append(e)
            _vs_pool = [by[k] for k in sorted(by)]
    # the boundary first, then a text on it: every version guard gets the same share however many texts sit on it
    return st.sampled_from(_vs_pool).flatmap(st.sampled_from)


def adversarial_text(max_frags=25, corpus_kinds=('repo',), weights=None, nest_depth=100):
    """The default mix used by most properties."""
    return st.one_of(
        soup(max_frags, weights),
        soup(max_frags, weights),
        soup(max_frags, weights),
        mutated(corpus_window(corpus_kinds), weights=weights),
        mutated(corpus_window(corpus_kinds), weights=weights),
        corpus_window(corpus_kinds),
        nested(nest_depth).map(lambda t: t[0]),
        st.builds(lambda a, b, c: a + b + c, soup(6, weights), nested(12).map(lambda t: t[0]), soup(6, weights)),
        derived_text(),
        bracket_then_dedent(),
        fstring_interior(),
        pep8_layout(),
        mutated(derived_text(), max_edits=2, weights=weights),
        snippet(),
        list_context(),
        st.lists(list_context(), min_size=2, max_size=3).map(''.join),
        mutated(snippet(), max_edits=2, weights=weights),
        version_sensitive().map(lambda e: e['text'] + '\n'),
        st.builds(lambda a, b, nl: a + nl + b, snippet(), snippet(), st.sampled_from(['\n', '\n\n', '; ', '\r\n'])),
    )


def classify_text(code):
    """Generator-distribution classes (written to evidence)."""
    c = []
    if '\r' in code:
        c.append('cr')
    if '\f' in code:
        c.append('formfeed')
    if BOM_CHAR in code:
        c.append('bom')
    if '\\\n' in code or '\\\r' in code:
        c.append('backslash-nl')
    if re.search(r'''(?i)\b[rb]?f[rb]?['"]''', code):
        c.append('fstring')
    if not code.isascii():
        c.append('non-ascii')
    if code and code[-1] not in '\r\n':
        c.append('no-final-newline')
    if any(ch in code for ch in '\x0b\x1c\x1d\x1e\x85  '):
        c.append('non-python-separator')
    if len(code) > 200:
        c.append('len>200')
    if not code:
        c.append('empty')
    return c


BOM_CHAR = '﻿'
