"""C16 — the parse cache is transparent (DESIGN §2 C16).  Model-based histories over a private temp root."""
import glob
import os
import shutil
import tempfile
import time

from hypothesis import strategies as st

from parso import cache as pcache
from parso.file_io import FileIO

from ..common import tree_sig, aborted, parent_link_error, scratch_dir, crash_signature, digest, first_tree_diff, grammar, short
from ..engine import Outcome, Prop

FILES = ['a.py', 'b.py', 'sub/a.py', 'l.py']     # l.py is a symbolic link to a.py
LINKS = {'l.py': 'a.py'}
VERS = ['3.8', '3.12', '3.6']
DIRS = ['c1', 'c2']
CONTENTS = ['x = 1\n', 'y = 2\n', 'def f():\n    return 1\n', 'x = (\n', '', 'class A:\n  pass\n', 'x = 1\ny = 2\n',
            'def f():\n    return 2\n', 'import os\nprint(os)\n', 'async def f(): await x\n', 'x = 1 \n', 'print "x"\n',
            'if x:\n    y\nelse:\n    z\n', '# coding: utf-8\nü = 1\n',
            # trees that differ between the three grammar versions
            'x = (y := 1)\n', 'def f(a, /): pass\n', 'with (a as b, c as d): pass\n', 'type X = int\n', 'f"{"a"}"\n',
            'def g[T](x: T) -> T: return x\n']
MODES = ['cache', 'cache', 'cache+diff', 'none', 'diff']

_F = st.sampled_from([0, 0, 0, 1, 2, 3, 3])
_V = st.sampled_from([0, 0, 1, 2])
_D = st.sampled_from([0, 0, 0, 1])
_op = st.one_of(
    st.tuples(st.just('write'), _F, st.integers(0, len(CONTENTS) - 1)),
    st.tuples(st.just('write'), _F, st.integers(0, len(CONTENTS) - 1)),
    st.tuples(st.just('parse'), _F, _V, _D, st.sampled_from(MODES)),
    st.tuples(st.just('parse'), _F, _V, _D, st.sampled_from(MODES)),
    st.tuples(st.just('parse'), _F, _V, _D, st.sampled_from(MODES)),
    st.tuples(st.just('parse_inflight'), _F, _V, _D, st.sampled_from(MODES),
              st.integers(0, len(CONTENTS) - 1)),
    st.tuples(st.just('touch'), _F),
    st.tuples(st.just('parse_inflight2'), _F, _V, _D, st.sampled_from(MODES), st.integers(0, len(CONTENTS) - 1), st.sampled_from(MODES)),
    st.tuples(st.just('parse_aborted'), _F, _V, _D, st.sampled_from(['cache', 'cache', 'none']), st.integers(1, 400)),
    st.tuples(st.just('parse_save_fails'), _F, _V, st.sampled_from(['cache', 'cache+diff', 'cache+diff']), st.booleans()),
    st.tuples(st.just('copy'), _F, _F),
    st.tuples(st.just('write_all'), st.integers(0, len(CONTENTS) - 1)),
    st.tuples(st.just('drop')),
    st.tuples(st.just('rmdir'), st.integers(0, 1)),
    st.tuples(st.just('evict')),
)


class World:
    def __init__(self):
        self.root = scratch_dir('vf-c16-')
        self.dirs = [os.path.join(self.root, d) for d in DIRS]
        self.files = [os.path.join(self.root, f) for f in FILES]
        os.mkdir(os.path.join(self.root, 'sub'))
        self.alias = {os.path.join(self.root, l): os.path.join(self.root, t) for l, t in LINKS.items()}
        self.clock = int(time.time()) - 10 ** 6
        self.model = {}
        self.stamps = {}
        self.saved_trigger = pcache._CACHED_SIZE_TRIGGER
        pcache.parser_cache.clear()

    def tick(self):
        self.clock += 2
        return self.clock

    def same_file(self, f):
        """All paths of the world that name the file behind f."""
        real = self.alias.get(f, f)
        return [real] + [l for l, t in self.alias.items() if t == real]

    def write(self, f, content):
        real = self.alias.get(f, f)
        with open(real, 'w', newline='', encoding='utf-8') as fh:
            fh.write(content)
        t = self.tick()
        os.utime(real, (t, t))
        for p in self.same_file(f):
            self.model[p] = content
            if not os.path.lexists(p):
                os.symlink(os.path.basename(real), p)      # relative link, created once; its own mtime never changes
                os.utime(p, (t, t), follow_symlinks=False)

    def touch(self, f):
        t = self.tick()
        os.utime(self.alias.get(f, f), (t, t))

    def restamp(self):
        """Pickles written during the last call get the next logical tick as mtime (single clock for all timestamps)."""
        for pk in glob.glob(os.path.join(self.root, 'c*', '*', '*.pkl')):
            st_ = os.stat(pk)
            key = (st_.st_mtime_ns, st_.st_size, st_.st_ino)
            if self.stamps.get(pk) != key:
                t = self.tick()
                os.utime(pk, (time.time(), t))
                st_ = os.stat(pk)
                self.stamps[pk] = (st_.st_mtime_ns, st_.st_size, st_.st_ino)

    def close(self):
        pcache._CACHED_SIZE_TRIGGER = self.saved_trigger
        pcache.parser_cache.clear()
        shutil.rmtree(self.root, ignore_errors=True)


class InflightIO(FileIO):
    """The file is overwritten right after parso has read it (an editor saving during the parse)."""

    def __init__(self, path, world, new_content, after_write=None):
        super().__init__(path)
        self._world = world
        self._new = new_content
        self._after_write = after_write

    def read(self):
        data = super().read()
        self._world.write(str(self.path), self._new)
        if self._after_write is not None:
            self._after_write()
        return data


def run_history(ops, allow_inflight=True):
    """Returns (fail, info)."""
    w = World()
    info = {'wrote_after_cached_then_parsed': False, 'steps': 0, 'inflight': False}
    cached = set()
    dirty = set()
    try:
        for i, f in enumerate(w.files):
            if f not in w.alias:
                w.write(f, CONTENTS[i])
        for step, op in enumerate(ops):
            kind = op[0]
            info['steps'] += 1
            if kind == 'write':
                f = w.files[op[1]]
                w.write(f, CONTENTS[op[2]])
                for p in w.same_file(f):
                    if p in cached:
                        dirty.add(p)
            elif kind == 'touch':
                w.touch(w.files[op[1]])
            elif kind in ('copy', 'write_all'):
                # files with identical content (cp a.py b.py; a checkout that writes the same boilerplate everywhere)
                if kind == 'copy':
                    targets, content = [w.files[op[2]]], w.model[w.files[op[1]]]
                else:
                    targets, content = [f for f in w.files if f not in w.alias], CONTENTS[op[1]]
                for f in targets:
                    w.write(f, content)
                    for p in w.same_file(f):
                        if p in cached:
                            dirty.add(p)
            elif kind == 'drop':
                pcache.parser_cache.clear()
            elif kind == 'rmdir':
                d = w.dirs[op[1]]
                shutil.rmtree(d, ignore_errors=True)
                for pk in list(w.stamps):
                    if pk.startswith(d + os.sep):
                        del w.stamps[pk]
            elif kind == 'evict':
                pcache._CACHED_SIZE_TRIGGER = 1
                for v in pcache.parser_cache.values():
                    for item in v.values():
                        item.last_used -= 10000
            elif kind == 'parse_restarted':
                # a *real* restart: the same call in a fresh interpreter that shares only the cache directory
                import subprocess
                import sys as _sys
                from ..common import REPO
                f = w.files[op[1]]
                v = VERS[op[2]]
                d = w.dirs[op[3]]
                mode = op[4]
                prog = ('import sys; sys.path.insert(0, %r); sys.dont_write_bytecode = True; import parso; '
                        'g = parso.load_grammar(version=%r); m = g.parse(path=%r, cache=%r, diff_cache=%r, cache_path=%r); '
                        'sys.stdout.buffer.write(m.dump(indent=None).encode("utf-8", "backslashreplace"))'
                        % (REPO, v, f, mode.startswith('cache'), 'diff' in mode, d))
                r = subprocess.run([_sys.executable, '-c', prog], capture_output=True, timeout=120)
                w.restamp()
                info['restarts'] = info.get('restarts', 0) + 1
                if r.returncode != 0:
                    return ('restarted-parse-raises', 'step %d %r: %s' % (step, op, r.stderr.decode('utf-8', 'replace')[-300:])), info
                exp = grammar(v).parse(w.model[f]).dump(indent=None).encode('utf-8', 'backslashreplace')
                if mode.startswith('cache') or 'diff' in mode:
                    cached.add(f)
                if f in dirty:
                    info['wrote_after_cached_then_parsed'] = True
                    dirty.discard(f)
                if r.stdout != exp:
                    return ('stale-or-foreign-tree+in-restarted-process', 'step %d %r: got %s' % (step, op, short(r.stdout.decode('utf-8', 'replace'), 100))), info
            elif kind == 'parse_aborted':
                # a parse that is interrupted (exception at the n-th line executed in cache.py / grammar.py / file_io.py: between the
                # read and the save, inside the save ...); the caller catches the exception and goes on - every LATER parse must
                # still be right.  (Not drawn with diff_cache: an update in place that is interrupted half-way is outside the statement.)
                f = w.files[op[1]]
                g = grammar(VERS[op[2]])
                mode = op[4]
                kw = dict(cache=mode.startswith('cache'), diff_cache='diff' in mode, cache_path=w.dirs[op[3]])
                try:
                    if aborted(lambda: g.parse(path=f, **kw), op[5], files=('cache.py', 'grammar.py', 'file_io.py')):
                        info['aborted'] = info.get('aborted', 0) + 1
                except Exception:
                    pass
                w.restamp()
                if kw['cache'] or kw['diff_cache']:
                    cached.add(f)
            elif kind == 'parse_save_fails':
                # the cache directory cannot be written (a regular file stands where the directory should be): the library warns;
                # with warnings turned into errors (python -W error, pytest) that warning ends the call - after the tree in memory
                # may already have been updated in place.  The caller goes on; every LATER parse must still be right.
                import warnings
                f = w.files[op[1]]
                g = grammar(VERS[op[2]])
                blocked = os.path.join(w.root, 'blocked')
                if not os.path.exists(blocked):
                    with open(blocked, 'w') as fh:
                        fh.write('not a directory')
                kw = dict(cache=True, diff_cache='diff' in op[3], cache_path=blocked)
                try:
                    with warnings.catch_warnings():
                        warnings.simplefilter('error' if op[4] else 'ignore')
                        m = g.parse(path=f, **kw)
                    if first_tree_diff(m, g.parse(w.model[f])) is not None:
                        return ('stale-or-foreign-tree+save-fails', 'step %d %r: returned code %s, file content %s'
                                % (step, op, short(m.get_code(), 60), short(w.model[f], 60))), info
                except Warning:
                    info['save_failed'] = info.get('save_failed', 0) + 1
                except Exception as e:
                    sig, det = crash_signature(e)
                    return (sig, 'step %d %r: %s' % (step, op, det)), info
                cached.add(f)
                if f in dirty:
                    info['wrote_after_cached_then_parsed'] = True
                    dirty.discard(f)
            elif kind in ('parse', 'parse_inflight', 'parse_inflight2'):
                f = w.files[op[1]]
                v = VERS[op[2]]
                d = w.dirs[op[3]]
                mode = op[4]
                g = grammar(v)
                kw = dict(cache=mode.startswith('cache'), diff_cache='diff' in mode, cache_path=d)
                content_at_read = w.model[f]
                try:
                    if kind == 'parse_inflight2' and allow_inflight:
                        # a SECOND reader in another thread, started strictly after the file was rewritten while the first parse is
                        # still in flight: it must get the new content (it may not be handed the tree of the parse in progress)
                        import threading
                        info['inflight'] = True
                        second = {}
                        kw2 = dict(cache=op[6].startswith('cache'), diff_cache='diff' in op[6], cache_path=d)

                        def reader():
                            try:
                                t_ = g.parse(path=f, **kw2)
                                # judged as returned: with diff_cache the first parse may afterwards update this very object in place
                                second['tree'] = (tree_sig(t_), t_.get_code())
                            except Exception as e:      # noqa
                                second['exc'] = e

                        def after_write():
                            second['expected'] = w.model[f]
                            t = threading.Thread(target=reader, daemon=True)
                            second['thread'] = t
                            t.start()
                            t.join(4.0)          # returns at once unless the reader waits for the parse in flight

                        m = g.parse(file_io=InflightIO(f, w, CONTENTS[op[5]], after_write), **kw)
                        if 'thread' in second:
                            second['thread'].join(60)
                        else:
                            second['tree'] = None          # the first parse was served from memory and never read the file
                        if 'exc' in second:
                            sig, det = crash_signature(second['exc'])
                            return (sig, 'step %d %r (second reader): %s' % (step, op, det)), info
                        if 'tree' not in second:
                            return ('second-reader-never-returns', 'step %d %r' % (step, op)), info
                        if second['tree'] is not None and second['tree'][0] != tree_sig(g.parse(second['expected'])):
                            return ('stale-or-foreign-tree+second-reader-during-parse', 'step %d %r: a reader that started after the file was '
                                    'rewritten got code %s, file content %s' % (step, op, short(second['tree'][1], 60), short(second['expected'], 60))), info
                    elif kind == 'parse_inflight' and allow_inflight:
                        info['inflight'] = True
                        m = g.parse(file_io=InflightIO(f, w, CONTENTS[op[5]]), **kw)
                    else:
                        m = g.parse(path=f, **kw)
                except Exception as e:
                    sig, det = crash_signature(e)
                    return (sig, 'step %d %r: %s' % (step, op, det)), info
                w.restamp()
                exp = g.parse(content_at_read)
                cur = g.parse(w.model[f])
                if f in dirty:
                    info['wrote_after_cached_then_parsed'] = True
                    dirty.discard(f)
                if kw['cache'] or kw['diff_cache']:
                    cached.add(f)
                d1 = first_tree_diff(m, exp)
                if d1 is None:
                    pl = parent_link_error(m)
                    if pl:
                        return ('returned-tree-has-broken-parent-links', 'step %d %r: %s' % (step, op, pl)), info
                if d1 is not None:
                    # a tree of the content written during this very call is also acceptable (a cache hit does not read at all,
                    # so "the content at read time" is then the current one)
                    if first_tree_diff(m, cur) is None:
                        continue
                    which = 'stale-or-foreign-tree'
                    if kind in ('parse_inflight', 'parse_inflight2'):
                        which += '+write-during-parse'
                    elif info['inflight']:
                        which += '+after-write-during-parse'
                    return (which, 'step %d %r: returned code %s, file content %s' % (step, op, short(m.get_code(), 60), short(content_at_read, 60))), info
        return None, info
    finally:
        w.close()


@st.composite
def pair_histories(draw):
    """Two paths used through the *same* grammar and cache directory: both parsed, one of them changed (often starting from
    identical contents), both parsed again in drawn modes - with random operations in between.  Any confusion between the entries
    of two paths, or between an entry and its in-place update, needs exactly this kind of correlated history."""
    f1, f2 = draw(_F), draw(_F)
    v, d = draw(_V), draw(_D)
    filler = st.lists(_op, max_size=2)
    ops = list(draw(filler))
    start = draw(st.integers(0, 3))
    if start == 0:
        ops.append(('copy', f1, f2))
    elif start == 1:
        ops.append(('write_all', draw(st.integers(0, len(CONTENTS) - 1))))
    m = st.sampled_from(MODES)
    ops += [('parse', f1, v, d, draw(m)), ('parse', f2, v, d, draw(m))]
    ops += draw(filler)
    ops.append(draw(st.one_of(st.tuples(st.just('write'), st.sampled_from([f1, f2]), st.integers(0, len(CONTENTS) - 1)),
                              st.tuples(st.just('copy'), st.sampled_from([f1, f2, draw(_F)]), st.sampled_from([f1, f2])))))
    if draw(st.integers(0, 2)) == 0:
        # the first parse after the change cannot save (or is interrupted); afterwards the change is perhaps undone
        undo = draw(st.integers(0, 1))
        if undo:
            i0, i1 = draw(st.integers(0, len(CONTENTS) - 1)), draw(st.integers(0, len(CONTENTS) - 1))
            ops = [('write', f1, i0)] + ops + [('write', f1, i1)]
        ops.append(draw(st.one_of(
            st.tuples(st.just('parse_save_fails'), st.sampled_from([f1, f2]), st.just(v), st.sampled_from(['cache', 'cache+diff', 'cache+diff']), st.booleans()),
            st.tuples(st.just('parse_aborted'), st.sampled_from([f1, f2]), st.just(v), st.just(d), st.sampled_from(['cache', 'none']), st.integers(1, 400)))))
        if undo:
            ops.append(('write', f1, i0))
    order = [f1, f2] if draw(st.booleans()) else [f2, f1]
    ops += [('parse', order[0], v, d, draw(m))]
    ops += draw(st.lists(_op, max_size=1))
    ops += [('parse', order[1], v, d, draw(m))]
    ops += draw(filler)
    return ops


class C16(Prop):
    id = 'C16'
    rule = ('Generated (model-based histories, 3-16 operations): 3 files (two share a base name) and a symbolic link to one of them x 3 grammar versions x 2 cache '
            'directories in a private temp root; operations {write file from a pool of 14 contents (mtime advances on an owned logical '
            'clock), copy the content of one file to another, write the same content to all files, touch, parse by path with cache / cache+diff_cache / no cache / diff_cache only, parse with a write in flight (FileIO '
            'subclass that overwrites the file right after parso read it), drop the in-memory cache (what a restart does), delete a cache '
            'directory, force memory eviction, a parse with a write in flight *and* a second reader thread that starts right after that write, a parse that is aborted by an exception at the n-th line executed in cache.py/grammar.py/file_io.py (the caller goes on), a parse whose cache directory cannot be written - with warnings as errors that ends the call after a possible in-place update}; one third of the histories are *pair histories* (two paths through the same grammar and cache directory: both parsed, one changed - often from identical contents -, both parsed again, random operations in between). All timestamps are kept on one logical clock: pickles written during a call are '
            're-stamped with the next tick. Oracle (dict-of-files model): every parse returns a tree equal (own comparator) to a fresh '
            'parse of the content the model says was on disk at read time. Non-trivial: history with a write after a cached parse of the '
            'same file followed by another parse of it. Distinct by operation sequence.')
    assumptions = ['mtime granularity (two writes in one tick) is outside the statement', 'quick tier models restarts by clearing parser_cache; the thorough tier adds real restarts (the same parse in a fresh interpreter sharing the cache directory)']
    budgets = {'quick': 6000, 'thorough': 150000}
    shrink_fields = ('ops',)
    hang_timeout = 150         # seconds without progress of a worker (a history takes well under a second; a second reader that
    #                            waits costs at most 4 + 60 s) before the parent inspects its current case

    def confirm_hang(self, case):
        """A worker stopped making progress on a history (e.g. a parse that waits for a lock or an event that nobody will ever
        release).  Confirmed in isolation: two fresh interpreters, 180 s each, for a history that normally takes milliseconds."""
        import json
        import subprocess
        import sys
        from ..common import REPO, VERIF
        prog = ('import sys, json; sys.path.insert(0, %r); sys.path.insert(1, %r); from vf.props import c16; '
                'c16.run_history([tuple(o) for o in json.load(sys.stdin)["ops"]]); print("done")' % (REPO, VERIF))
        for _ in range(2):
            try:
                r = subprocess.run([sys.executable, '-c', prog], input=json.dumps(case).encode(), capture_output=True, timeout=180,
                                   env=dict(os.environ, VERIF_REPO=REPO, PYTHONHASHSEED='0'))
                if b'done' in r.stdout or r.returncode != 0:
                    return None
            except subprocess.TimeoutExpired:
                continue
        return ('does-not-terminate', 'history did not finish within 180 s in two isolated runs: %s' % short(case['ops'], 300))

    def strategy(self, tier):
        op = _op
        if tier == 'thorough':
            # thorough only (an interpreter start + grammar generation per operation): real process restarts
            op = st.one_of(*([_op] * 40 + [st.tuples(st.just('parse_restarted'), _F, _V, _D, st.sampled_from(MODES))]))
        hist = st.one_of(st.lists(op, min_size=3, max_size=16), st.lists(op, min_size=3, max_size=16), pair_histories())
        return st.fixed_dictionaries({'ops': hist.map(lambda l: [list(o) for o in l])})

    def check(self, case):
        ops = [tuple(o) for o in case['ops']]
        fail, info = run_history(ops)
        classes = []
        if info['inflight']:
            classes.append('write-during-parse')
        kinds = {o[0] for o in ops}
        if info.get('restarts'):
            classes.append('real-restart')
        if info.get('save_failed'):
            classes.append('save-fails-with-warnings-as-errors')
        if info.get('aborted'):
            classes.append('parse-aborted-midway')
        for k in ('drop', 'rmdir', 'evict', 'touch', 'copy', 'write_all'):
            if k in kinds:
                classes.append(k)
        return Outcome(fail=fail, nontrivial=info['wrote_after_cached_then_parsed'], classes=classes,
                       key=digest(case['ops']), units=info['steps'])

    def sample_repr(self, case):
        return {'ops': case['ops']}


PROP = C16()
