"""C11 — tree navigation and position lookup (DESIGN §2 C11)."""
from hypothesis import strategies as st

from ..common import maybe_disturb, PROVENANCES, tree_via, advance, crash_signature, digest, grammar, is_zero_width, leaves, nodes_preorder, ref_split_lines, short
from ..engine import Outcome, Prop
from ..gen import text as T

TYPE_POOL = ['file_input', 'funcdef', 'classdef', 'suite', 'simple_stmt', 'expr_stmt', 'atom', 'trailer', 'error_node',
             'if_stmt', 'for_stmt', 'arglist', 'lambdef', 'param', 'parameters', 'decorated', 'testlist_comp',
             'fstring', 'fstring_expr', 'term', 'arith_expr', 'atom_expr', 'import_from', 'with_stmt', 'try_stmt',
             'nonexistent', 'name', 'operator']


def check_navigation(m, code, type_sets):
    L = leaves(m)
    N = nodes_preorder(m)
    info = {'identity_trap': False, 'zero_width': any(is_zero_width(l) for l in L), 'lookups': 0}
    # parent links / root
    for n in N:
        for c in getattr(n, 'children', ()):
            if c.parent is not n:
                return ('parent-link', '%r listed by %r has parent %r' % (c, n.type, c.parent)), info
        if n.get_root_node() is not m:
            return ('root', 'get_root_node of %r is not the module' % n), info
    if m.parent is not None:
        return ('root-parent', 'root has a parent'), info
    index = {id(l): i for i, l in enumerate(L)}
    # first/last leaf of every node = ends of its slice of L
    for n in N:
        ch = getattr(n, 'children', None)
        if ch is None:
            if n.get_first_leaf() is not n or n.get_last_leaf() is not n:
                return ('first-last-leaf', 'leaf %r' % n), info
            continue
        fl, ll = n, n
        while getattr(fl, 'children', None) is not None:
            fl = fl.children[0]
        while getattr(ll, 'children', None) is not None:
            ll = ll.children[-1]
        if n.get_first_leaf() is not fl or n.get_last_leaf() is not ll:
            return ('first-last-leaf', 'node %s at %r' % (n.type, n.start_pos)), info
        # siblings by identity
        vals = {}
        for i, c in enumerate(ch):
            nxt = ch[i + 1] if i + 1 < len(ch) else None
            prv = ch[i - 1] if i > 0 else None
            if c.get_next_sibling() is not nxt:
                return ('next-sibling', 'child %d (%r) of %s at %r: got %r expected %r' % (i, c, n.type, n.start_pos, c.get_next_sibling(), nxt)), info
            if c.get_previous_sibling() is not prv:
                return ('previous-sibling', 'child %d (%r) of %s at %r' % (i, c, n.type, n.start_pos)), info
            if c.type in ('operator', 'keyword'):
                if c.value in vals:
                    info['identity_trap'] = True
                vals[c.value] = 1
    if m.get_next_sibling() is not None or m.get_previous_sibling() is not None:
        return ('root-sibling', 'root has a sibling'), info
    # next/previous leaf enumerate L exactly once, both directions
    if m.get_first_leaf() is not L[0] or m.get_last_leaf() is not L[-1]:
        return ('module-first-last', ''), info
    for i, l in enumerate(L):
        nxt = L[i + 1] if i + 1 < len(L) else None
        prv = L[i - 1] if i > 0 else None
        if l.get_next_leaf() is not nxt:
            return ('next-leaf', 'leaf %d %r: got %r expected %r' % (i, l, l.get_next_leaf(), nxt)), info
        if l.get_previous_leaf() is not prv:
            return ('previous-leaf', 'leaf %d %r: got %r expected %r' % (i, l, l.get_previous_leaf(), prv)), info
    # interior nodes: next/previous leaf relative to their slice
    for n in N:
        if getattr(n, 'children', None) is None or n is m:
            continue
        a = index[id(n.get_first_leaf())]
        b = index[id(n.get_last_leaf())]
        if n.get_previous_leaf() is not (L[a - 1] if a > 0 else None):
            return ('node-previous-leaf', '%s at %r' % (n.type, n.start_pos)), info
        if n.get_next_leaf() is not (L[b + 1] if b + 1 < len(L) else None):
            return ('node-next-leaf', '%s at %r' % (n.type, n.start_pos)), info
    # search_ancestor
    for ts in type_sets:
        for n in N:
            exp = None
            p = n.parent
            while p is not None:
                if p.type in ts:
                    exp = p
                    break
                p = p.parent
            if n.search_ancestor(*ts) is not exp:
                return ('search-ancestor', '%r types %r' % (n, ts)), info
    # position lookup: every (line, col) incl. one past the line end and one line beyond the file
    lines = ref_split_lines(code, False)
    end = m.end_pos
    real = L
    # leaf spans by the reference walker over prefix+value (never parso's own start_pos/end_pos: C03 checks those, and a
    # lookup that agrees with a wrong end_pos is still a wrong lookup)
    starts, ends = [], []
    p = (1, 0)
    prefixes = [l.prefix for l in real]
    first_real = next((i for i, l in enumerate(real) if not is_zero_width(l)), None)
    if first_real is not None and prefixes[first_real].startswith('\ufeff'):
        prefixes[first_real] = prefixes[first_real][1:]        # a leading BOM has zero width
    for i, l in enumerate(real):
        prefix = prefixes[i]
        if is_zero_width(l):
            # pseudo tokens (INDENT/DEDENT error leaves) sit where the next real leaf's value starts
            nxt = next((k for k in range(i + 1, len(real)) if not is_zero_width(real[k])), None)
            z = advance(p, prefixes[nxt]) if nxt is not None else p
            starts.append(z)
            ends.append(z)
            continue
        s0 = advance(p, prefix)
        p = advance(s0, l.value)
        starts.append(s0)
        ends.append(p)
    for li, line in enumerate(lines + ['']):
        for col in range(0, len(line) + 2):
            pos = (li + 1, col)
            for inc in (False, True):
                info['lookups'] += 1
                try:
                    got = m.get_leaf_for_position(pos, include_prefixes=inc)
                    raised = False
                except ValueError:
                    raised = True
                inside = (1, 0) <= pos <= end
                if raised != (not inside):
                    return ('lookup-range', 'pos %r include_prefixes=%r: raised=%r, file ends at %r' % (pos, inc, raised, end)), info
                if raised:
                    continue
                exp = None
                for l, s0, e in zip(real, starts, ends):
                    if e >= pos:
                        exp = l
                        if not inc and pos < s0:
                            exp = None
                        break
                if got is not exp:
                    return ('lookup', 'pos %r include_prefixes=%r: got %r expected %r' % (pos, inc, got, exp)), info
            # get_name_of_position
            names = [l for l, s0, e in zip(real, starts, ends) if l.type == 'name' and s0 <= pos <= e]
            gn = m.get_name_of_position(pos)
            if names:
                if gn is None or gn.type != 'name' or not any(gn is x for x in names):
                    return ('name-of-position', 'pos %r: got %r, candidates %r' % (pos, gn, names)), info
            elif gn is not None:
                return ('name-of-position', 'pos %r: got %r but no name leaf contains it' % (pos, gn)), info
    for pos in ((0, 0), (1, -1), (0, 5), (end[0], end[1] + 1), (end[0] + 1, 0)):
        try:
            m.get_leaf_for_position(pos)
            return ('lookup-range', 'position %r outside the file accepted' % (pos,)), info
        except ValueError:
            pass
    return None, info


class C11(Prop):
    id = 'C11'
    rule = ('Generated: trees of adversarial texts (error nodes, zero-width leaves, repeated operators) x 9 versions; for each '
            'tree ALL nodes, ALL leaves and EVERY (line, col) with col in 0..len(line)+1 (plus positions outside the file), both '
            'include_prefixes values, and 3 drawn type sets for search_ancestor. Oracle: in-order leaf list by own descent over '
            'children with leaf spans from the reference character walker over prefix+value (not parso\'s positions); identity comparisons. Non-trivial: tree has >=2 equal-valued operator/keyword siblings under one parent '
            '(identity-vs-equality trap) or a zero-width error leaf. elementary_checks counts position lookups. Tree provenance (3 of 7 cases): the tree is reached by an in-place diff_cache update from a line-edited earlier text on which all lookups were run first, through pickle, or is navigated twice.')
    budgets = {'quick': 8000, 'thorough': 800000}

    def strategy(self, tier):
        w = {'op': 8, 'layout': 6}
        text = st.one_of(T.soup(18, w), T.soup(18, w), T.mutated(T.corpus_window(('repo',), max_lines=12), weights=w),
                         T.nested(20).map(lambda t: t[0]))
        return st.fixed_dictionaries({
            'code': text, 'version': T.version(),
            'type_sets': st.lists(st.lists(st.sampled_from(TYPE_POOL), min_size=1, max_size=3), min_size=3, max_size=3),
            'prov': st.sampled_from(PROVENANCES), 'how': st.integers(0, 10 ** 4)})

    def check(self, case):
        code, v = case['code'], case['version']
        try:
            ts = [tuple(t) for t in case['type_sets']]
            maybe_disturb(grammar(v), code, v)
            m, prov = tree_via(grammar(v), code, case.get('prov', 'fresh'), case.get('how', 0), digest(code, v, 'c11').hex(),
                               lambda mod, text: check_navigation(mod, text, ts))
            fail, info = check_navigation(m, code, ts)
            if fail is not None and prov != 'fresh':
                fail = (fail[0], 'tree provenance %s: %s' % (prov, fail[1]))
        except RecursionError:
            return Outcome(excluded='recursion-limit')
        except Exception as e:
            return Outcome(fail=crash_signature(e), nontrivial=True, key=digest(code, v))
        classes = ['tree:' + prov]
        if info['identity_trap']:
            classes.append('equal-valued-siblings')
        if info['zero_width']:
            classes.append('zero-width-leaf')
        return Outcome(fail=fail, nontrivial=len(classes) > 1, classes=classes + T.classify_text(code),
                       key=digest(code, v, prov), units=max(1, info['lookups']))

    def sample_repr(self, case):
        return {'code': short(case['code'], 200), 'version': case['version'], 'type_sets': case['type_sets'], 'tree': case.get('prov', 'fresh')}


PROP = C11()
