"""C13 — error listing total, coherent, pure, deterministic (DESIGN §2 C13)."""
from hypothesis import strategies as st

from ..common import maybe_disturb, crash_signature, digest, grammar, has_error, short, tree_sig
from ..engine import Outcome, Prop
from ..gen import text as T


def issue_tuple(i):
    return (i.code, i.message, tuple(i.start_pos), tuple(i.end_pos))


def check_errors(g, m):
    before = tree_sig(m)
    try:
        issues = list(g.iter_errors(m))
    except RecursionError:
        raise
    except Exception as e:
        return crash_signature(e), None
    if tree_sig(m) != before:
        return ('tree-modified', 'iter_errors changed the tree'), issues
    lines_seen = set()
    for i in issues:
        if i.code not in (901, 903):
            return ('issue-code', 'code %r message %r' % (i.code, i.message)), issues
        want = 'SyntaxError: ' if i.code == 901 else 'IndentationError: '
        if not isinstance(i.message, str) or not i.message.startswith(want):
            return ('issue-message-prefix', 'code %r message %r' % (i.code, i.message)), issues
        if not ((1, 0) <= tuple(i.start_pos) <= tuple(i.end_pos) <= tuple(m.end_pos)):
            return ('issue-range', '%r..%r outside file ending %r (%s)' % (i.start_pos, i.end_pos, m.end_pos, i.message)), issues
        if i.start_pos[0] in lines_seen:
            return ('two-issues-on-one-line', 'line %d: %r' % (i.start_pos[0], [issue_tuple(x) for x in issues])), issues
        lines_seen.add(i.start_pos[0])
    # coverage of recorded errors
    v = g.version_info
    stack = [(m, False)]
    while stack:
        n, inerr = stack.pop()
        if not inerr:
            if n.type == 'error_leaf':
                if n.token_type in ('INDENT', 'ERROR_DEDENT'):
                    nl = n.get_next_leaf()
                    ln = nl.start_pos[0] if nl is not None else n.start_pos[0]
                else:
                    ln = n.start_pos[0]
                if ln not in lines_seen:
                    return ('error-leaf-unreported', '%r on line %d; issues %r' % (n, ln, [issue_tuple(x) for x in issues])), issues
            elif n.type == 'error_node':
                nl = n.get_next_leaf()
                fs = v >= (3, 9) and any(c.type == 'fstring_start' for c in n.children) and n.start_pos[0] in lines_seen
                if nl is not None and nl.start_pos[0] not in lines_seen and not fs:
                    return ('error-node-unreported', 'error node at %r, next leaf %r at %r; issues %r'
                            % (n.start_pos, nl, nl.start_pos, [issue_tuple(x) for x in issues])), issues
        for c in getattr(n, 'children', ()):
            stack.append((c, inerr or n.type == 'error_node'))
    if has_error(m) and not issues:
        return ('errors-in-tree-but-no-issue', ''), issues
    try:
        again = list(g.iter_errors(m))
    except Exception as e:
        sig, det = crash_signature(e)
        return ('second-call-' + sig, det), issues
    if [issue_tuple(i) for i in issues] != [issue_tuple(i) for i in again]:
        return ('nondeterministic', '%r then %r' % ([issue_tuple(i) for i in issues], [issue_tuple(i) for i in again])), issues
    return None, issues


class C13(Prop):
    id = 'C13'
    rule = ('Generated: trees from adversarial texts, mutated real code and nesting builders x 9 versions. Oracle: iter_errors does '
            'not raise, tree signature unchanged, codes in {901,903} with matching message prefix, (1,0)<=start<=end<=module end, '
            '<=1 issue per start line, each error leaf outside error nodes has an issue on its line (INDENT/ERROR_DEDENT: line of the '
            'following leaf), each outermost error node has an issue on the line of the following leaf (or, V>=3.9 with an '
            'fstring_start child, on its own start line), tree with error => list non-empty, second call identical. '
            'Non-trivial: tree has an error node/leaf or >=1 issue.')
    fuzz = True       # thorough/quick runs add an atheris sub-tier with this check as the in-target oracle
    budgets = {'quick': 40000, 'thorough': 800000}

    def strategy(self, tier):
        kinds = ('repo',) if tier == 'quick' else ('repo', 'stdlib3.12')
        w = {'stmt': 6, 'kw': 4, 'fquote': 2, 'fbit': 3, 'comment': 2}
        return st.fixed_dictionaries({'code': T.adversarial_text(corpus_kinds=kinds, weights=w, nest_depth=30), 'version': T.version(),
                                      'earlier': st.lists(T.soup(6, w), max_size=2)})

    def check(self, case):
        code, v = case['code'], case['version']
        g = grammar(v)
        maybe_disturb(g, code, v)      # process history: an unfinished earlier call must not matter
        try:
            m = g.parse(code)
            fail, issues = check_errors(g, m)
        except RecursionError:
            return Outcome(excluded='recursion-limit')
        except Exception as e:
            return Outcome(fail=crash_signature(e), nontrivial=True, key=digest(code, v))
        err = has_error(m)
        classes = []
        if fail is None and case.get('earlier'):
            # coherence must not depend on where the tree came from: the same text reached through diff_cache updates of
            # one module object, with the issues listed on every intermediate state
            from .c20 import diff_parse
            from ..common import first_tree_diff
            texts = [e + code for e in case['earlier']] + [code]
            try:
                md = diff_parse(g, texts, digest(code, v).hex(), after_each=lambda mod: list(g.iter_errors(mod)))
                if first_tree_diff(m, md) is None:
                    classes.append('diff-provenance-compared')
                    a = [issue_tuple(i) for i in issues]
                    b = [issue_tuple(i) for i in g.iter_errors(md)]
                    if a != b:
                        fail = ('issues-differ-after-incremental-reparse', 'fresh %r vs incremental %r' % (a[:5], b[:5]))
            except RecursionError:
                pass
            except Exception:
                classes.append('diff-parser-raised(C04)')
        if err:
            classes.append('error-node')
        if issues:
            classes.append('has-issues')
            if not err:
                classes.append('semantic-only')
        return Outcome(fail=fail, nontrivial=err or bool(issues), classes=classes + T.classify_text(code), key=digest(code, v))

    def sample_repr(self, case):
        return {'code': short(case['code'], 200), 'version': case['version']}


PROP = C13()
