"""C04 — incremental re-parse equals a fresh parse after any edit history (DESIGN §2 C04)."""
import os
import re
from pathlib import Path

from hypothesis import strategies as st

import parso
from parso import cache as pcache
from parso.grammar import PythonGrammar
from parso.python.diff import DiffParser

from ..common import (BOM, REPO, crash_signature, digest, first_tree_diff, leaves, parent_link_error, ref_split_lines,
                      short)
from ..engine import Outcome, Prop
from ..gen import text as T

STATS = {'copy': 0, 'parse': 0}


class CountingDiffParser(DiffParser):
    def update(self, old_lines, new_lines):
        r = super().update(old_lines, new_lines)
        STATS['copy'] += self._copy_count
        STATS['parse'] += self._parser_count
        return r


_private = {}


def private_grammar(v):
    g = _private.get(v)
    if g is None:
        shared = parso.load_grammar(version=v)
        vi = shared.version_info
        with open(os.path.join(REPO, 'parso', 'python', 'grammar%d%d.txt' % (vi.major, vi.minor))) as f:
            text = f.read()
        g = PythonGrammar(vi, text)
        g._diff_parser = CountingDiffParser
        _private[v] = g
    return g


# ---- history generator -----------------------------------------------------------------------

EDIT_FRAGS = ['(', ')', '[', '{', '"""', "'''", '"', "'", 'f"', "f'''{", '\\', ':', ' ', '    ', '\t', '#', '@dec',
              'else:', 'elif x:', 'except:', 'finally:', 'try:', 'if x:', 'def f():', 'class A:', 'async def g():',
              'for i in x:', 'while 1:', 'with a:', 'pass', 'return', 'x = 1', 'lambda: ', 'yield', '\f', 'é', '$', '}']
LINES = ['@dec\n', 'else:\n', 'elif y:\n', 'except E:\n', 'finally:\n', 'try:\n', 'if x:\n', 'def f():\n', 'class A:\n',
         '    pass\n', 'pass\n', '\n', '    \n', '# c\n', '"""\n', "'''\n", ')\n', '(\n', '    return 1\n', 'x = [\n', ']\n',
         'async def g():\n', '  x\n', '\tx\n', ' \\\n', 'f"""{\n', 'for a in b:\n', 'while 1:\n', 'with a as b:\n', '\f\n',
         '        y = 2\n', 'import a\n', 'x = 1 \\\n', '    else:\n', '    def m(self):\n', '        pass\n', 'a = """\n']

HEADERS = ['def f(a):', 'async def g(b):', 'class C(Base):', 'if x:', 'for i in y:', 'while z:', 'try:', 'with a as b:',
           'async with a:', 'async for i in y:', 'def h(a, /, b=1, *, c):', 'class D:']
DECOS = ['@dec', '@d.e(1)', '@staticmethod', '@a.b']
BODY = ['pass', 'x = 1', 'return x', 'y = f(x)', 'yield x', 'await z', 'x += 1', "'''doc'''", 'print(x)', 'raise E', 'x = [', ']',
        'foo(', ')', '# comment', '', 'lambda: 0', 'import os', 'global g', 'z = (1 +', '   2)']
FOLLOW = {'if': ['elif y:', 'else:'], 'for': ['else:'], 'while': ['else:'], 'try': ['except E as e:', 'except:', 'else:', 'finally:'],
          'async': []}


@st.composite
def skeleton(draw):
    """Structured program text: (decorated / async) defs, classes and flows with bodies, nested up to 3 levels."""
    unit = draw(st.sampled_from(['    ', '  ', '\t']))
    return ''.join(_block(draw, 0, unit, 0) for _ in range(draw(st.integers(1, 4))))


def _block(draw, level, unit, depth):
    ind = unit * level
    kind = draw(st.integers(0, 9))
    if kind < 3 or depth >= 3:
        return ind + draw(st.sampled_from(BODY)) + '\n'
    out = []
    head = draw(st.sampled_from(HEADERS))
    if head.startswith(('def', 'async def', 'class')):
        for _ in range(draw(st.integers(0, 2))):
            out.append(ind + draw(st.sampled_from(DECOS)) + '\n')
    out.append(ind + head + '\n')
    for _ in range(draw(st.integers(1, 3))):
        out.append(_block(draw, level + 1, unit, depth + 1))
    for follow in FOLLOW.get(head.split()[0].rstrip(':'), []):
        if draw(st.integers(0, 2)) == 0:
            out.append(ind + follow + '\n')
            out.append(_block(draw, level + 1, unit, depth + 1))
    return ''.join(out)


_HEADER_LINE = re.compile(r'^[ \t]*(?:@|(?:async[ \t]+)?(?:def|class|if|elif|else|for|while|try|except|finally|with|match|case)\b).*$', re.S)

_op = st.tuples(
    st.sampled_from(['insline', 'insline', 'dupline', 'delrange', 'delrange', 'inscol', 'inscol', 'repcol', 'delcol',
                     'indent', 'dedent', 'corpusline', 'bom', 'finalnl', 'nlstyle', 'undo', 'noop', 'movelines',
                     'appendbody', 'appendbody', 'appendbody', 'appendeof', 'insheader', 'delheader', 'delheader']),
    st.integers(0, 10 ** 6), st.integers(0, 10 ** 6),
    st.one_of(st.sampled_from(EDIT_FRAGS), st.sampled_from(LINES), T.fragment()),
)


def apply_op(lines, op, history, corpus):
    kind, a, b, frag = op
    lines = list(lines)
    n = len(lines)
    if kind == 'insline':
        f = frag if frag.endswith(('\n', '\r')) else frag + '\n'
        lines.insert(a % (n + 1), f)
    elif kind == 'dupline' and n:
        i = a % n
        k = 1 + b % 3
        lines[a % (n + 1):a % (n + 1)] = lines[i:i + k]
    elif kind == 'movelines' and n > 1:
        i = a % n
        k = 1 + b % 4
        chunk = lines[i:i + k]
        del lines[i:i + k]
        j = b % (len(lines) + 1)
        lines[j:j] = chunk
    elif kind == 'delrange' and n:
        i = a % n
        del lines[i:i + 1 + b % 3]
    elif kind in ('inscol', 'repcol', 'delcol') and n:
        i = a % n
        l = lines[i]
        c = b % (len(l) + 1)
        if kind == 'inscol':
            lines[i] = l[:c] + frag + l[c:]
        elif kind == 'repcol':
            lines[i] = l[:c] + frag + l[c + 1 + (b // 7) % 4:]
        else:
            lines[i] = l[:c] + l[c + 1 + (b // 7) % 6:]
    elif kind in ('indent', 'dedent') and n:
        i = a % n
        k = 1 + b % 5
        unit = ['    ', '  ', ' ', '\t'][(b // 5) % 4]
        for j in range(i, min(n, i + k)):
            if kind == 'indent':
                lines[j] = unit + lines[j]
            elif lines[j].startswith(unit):
                lines[j] = lines[j][len(unit):]
            else:
                lines[j] = lines[j].lstrip(' \t')
    elif kind == 'corpusline' and corpus:
        src = corpus[a % len(corpus)]
        i = b % len(src)
        lines[(a // 3) % (n + 1):(a // 3) % (n + 1)] = src[i:i + 1 + b % 4]
    elif kind == 'bom':
        text = ''.join(lines)
        text = text[1:] if text.startswith(BOM) else BOM + text
        return ref_split_lines(text, True)
    elif kind == 'finalnl':
        text = ''.join(lines)
        if text.endswith(('\n', '\r')):
            text = text[:-2] if text.endswith('\r\n') else text[:-1]
        else:
            text += '\n'
        return ref_split_lines(text, True)
    elif kind == 'nlstyle' and n:
        i = a % n
        k = 1 + b % 6
        nl = ['\r\n', '\r', '\n'][(b // 6) % 3]
        for j in range(i, min(n, i + k)):
            lines[j] = re.sub(r'(\r\n|\r|\n)\Z', lambda m: nl, lines[j])
    elif kind in ('appendbody', 'appendeof', 'insheader') and n:
        # a new statement / header at the indentation of an existing line (appendeof: of the last non-blank line)
        i = (n - 1) if kind == 'appendeof' else a % n
        j = i
        while j > 0 and not lines[j].strip():
            j -= 1
        ref = lines[j]
        ind = ref[:len(ref) - len(ref.lstrip(' \t'))]
        if not ref.endswith(('\n', '\r')):
            lines[j] = ref + '\n'
        if kind == 'insheader':
            new = ind + HEADERS[b % len(HEADERS)] + '\n'
        else:
            new = ind + BODY[b % len(BODY)] + ('\n' if (b // 31) % 5 else '')
        lines.insert(i + 1, new)
    elif kind == 'delheader' and n:
        # a deletion that crosses a block boundary: a header line (def/class/flow/decorator) goes, together with up to two
        # lines before it (the tail of the previous suite), so its body joins whatever precedes it
        heads = [i for i, l in enumerate(lines) if _HEADER_LINE.match(l)]
        if heads:
            i = heads[a % len(heads)]
            k = b % 3
            del lines[max(0, i - k):i + 1]
    elif kind == 'undo' and history:
        return ref_split_lines(history[a % len(history)], True)
    # 'noop' and fall-through: unchanged
    return ref_split_lines(''.join(lines), True)


_corpus_lines = None


def corpus():
    global _corpus_lines
    if _corpus_lines is None:
        _corpus_lines = [T.corpus_lines(f) for f in T.corpus_files('repo')]
        _corpus_lines = [c for c in _corpus_lines if c]
    return _corpus_lines


@st.composite
def history(draw, kinds=('repo',)):
    v = draw(T.version())
    start = draw(st.one_of(skeleton(), skeleton(), T.corpus_window(kinds, max_lines=30), T.corpus_window(kinds, max_lines=12, dedent=True),
                           T.corpus_window(kinds, max_lines=30), T.soup(15),
                           st.lists(st.sampled_from(LINES), max_size=12).map(''.join)))
    ops = draw(st.lists(_op, min_size=1, max_size=10))
    texts = [start]
    cur = ref_split_lines(start, True)
    for op in ops:
        if draw(st.integers(0, 2)) == 0:
            # several edits (in different places) before the next parse: the line diff then has several changed regions
            # with copied regions in between - equal/delete/equal/replace/equal ...
            for _ in range(draw(st.integers(1, 2))):
                cur = apply_op(cur, draw(_op), texts, corpus())
        cur = apply_op(cur, op, texts, corpus())
        texts.append(''.join(cur))
    names = draw(st.lists(st.booleans(), min_size=len(texts), max_size=len(texts)))
    return {'version': v, 'texts': texts, 'used_names_before': names, 'debug_diff_parser': draw(st.integers(0, 9)) == 0}


DOUBLE_BACKSLASH_EOF = re.compile(r'\\(?:\r\n|\r|\n)[ \t\f]*\\(?:\r\n|\r|\n)')


def names_sig(mapping):
    out = {}
    for k in mapping:
        out[k] = sorted((l.start_pos, l.value) for l in mapping[k])
    return out


class C04(Prop):
    id = 'C04'
    rule = ('Generated (model-based histories): start text (window of real code / dedented window / fragment soup / statement-line '
            'mix) then 1-10 edit operations drawn from {insert line, duplicate lines, move lines, delete range, in-line '
            'insert/replace/delete, indent/dedent a block by spaces or tabs, insert lines of another file, toggle BOM, toggle final '
            'newline, change newline style of a range, delete a header line with the tail of the suite before it, undo to any earlier text, no-op}, one to three operations per step (several changed regions per line diff); after every step '
            'parse(text, diff_cache=True, path=private key), optionally after calling get_used_names() on the previous tree. '
            'Oracle after every step: own structural comparator vs fresh parse (class, type, value, prefix, start/end, token_type, '
            'child counts), get_code()==text, parent links, get_used_names() equal to the fresh one with all leaves in the current '
            'tree, no exception. Non-trivial: the history contains a step where the diff parser both copied and re-parsed '
            '(DiffParser._copy_count/_parser_count of a counting subclass on a private grammar instance) and the text changed. '
            'Distinct by hash of (version, texts).')
    budgets = {'quick': 40000, 'thorough': 600000}
    time_caps = {'quick': 150, 'thorough': 1700}
    shrink_fields = ('texts',)

    def strategy(self, tier):
        return history(('repo',))

    def check(self, case):
        v, texts = case['version'], case['texts']
        flags = case.get('used_names_before') or [False] * len(texts)
        g = private_grammar(v)
        path = Path('/nonexistent/c04-%s.py' % digest(v, texts).hex())
        nontrivial = False
        fail = None
        excluded = None
        classes = []
        m = None
        import parso.python.diff as _diff
        # one history in ten also runs with the library's own consistency asserts switched on (cross-check;
        # the shipped configuration, DEBUG_DIFF_PARSER = False, is what the other nine see)
        debug = bool(case.get('debug_diff_parser'))
        old_debug = _diff.DEBUG_DIFF_PARSER
        _diff.DEBUG_DIFF_PARSER = debug
        try:
            for i, text in enumerate(texts):
                trigger = i > 0 and DOUBLE_BACKSLASH_EOF.search(texts[i - 1]) is not None
                if trigger:
                    excluded = 'F-C04-2 trigger present (two consecutive backslash-continuation lines in the old text)'
                if m is not None and i < len(flags) and flags[i]:
                    try:
                        m.get_used_names()
                    except RecursionError:
                        raise
                    except Exception as e:
                        sig, det = crash_signature(e)
                        fail = ('used-names-' + sig, det)
                        break
                STATS['copy'] = STATS['parse'] = 0
                try:
                    if debug:
                        import contextlib
                        import io
                        with contextlib.redirect_stdout(io.StringIO()):     # the debug mode prints its report
                            m = g.parse(text, diff_cache=True, path=path)
                    else:
                        m = g.parse(text, diff_cache=True, path=path)
                except RecursionError:
                    raise
                except Exception as e:
                    fail = crash_signature(e)
                    fail = (fail[0], fail[1][:300] + ' (step %d)' % i)
                    if debug and isinstance(e, AssertionError) and '_assert_nodes_are_equal' in fail[0]:
                        # the library's own cross-check observed what the comparator below would observe
                        fail = ('incremental-tree-differs' + ('+old-text-has-double-backslash-continuation' if trigger else ''),
                                'DEBUG_DIFF_PARSER assertion: ' + fail[1])
                    break
                if i > 0 and STATS['copy'] and STATS['parse'] and text != texts[i - 1]:
                    nontrivial = True
                if i > 0 and STATS['copy']:
                    classes.append('copied')
                fresh = g.parse(text)
                if m.get_code() != text:
                    fail = ('incremental-code-differs', 'step %d: get_code() != new text' % i)
                    break
                d = first_tree_diff(m, fresh)
                if d:
                    # root-cause signature: a divergence right after an old text with the F-C04-2 trigger is that finding
                    fail = ('incremental-tree-differs' + ('+old-text-has-double-backslash-continuation' if trigger else ''),
                            'step %d: %s' % (i, d))
                    break
                p = parent_link_error(m)
                if p:
                    fail = ('incremental-parent-links', 'step %d: %s' % (i, p))
                    break
                un = m.get_used_names()
                if names_sig(un) != names_sig(fresh.get_used_names()):
                    fail = ('stale-used-names', 'step %d' % i)
                    break
                ids = {id(l) for l in leaves(m)}
                if any(id(l) not in ids for k in un for l in un[k]):
                    fail = ('used-names-foreign-leaf', 'step %d' % i)
                    break
        except RecursionError:
            excluded = 'recursion-limit'
        finally:
            _diff.DEBUG_DIFF_PARSER = old_debug
            pcache.parser_cache.get(g._hashed, {}).pop(path, None)
        if any('\r' in t for t in texts):
            classes.append('cr')
        if any(t.startswith(BOM) for t in texts):
            classes.append('bom')
        if len(set(texts)) < len(texts):
            classes.append('revisits-earlier-text')
        if any(flags):
            classes.append('used-names-memo')
        if debug:
            classes.append('with-DEBUG_DIFF_PARSER')
        classes.append('steps:%d' % min(len(texts) - 1, 9))
        return Outcome(fail=fail, nontrivial=nontrivial and fail is None or fail is not None, classes=sorted(set(classes)),
                       excluded=excluded, key=digest(v, texts), units=len(texts))

    def shrink_extra(self, case, fails):
        c = dict(case)
        c2 = dict(c, used_names_before=[False] * len(c['texts']))
        if fails(c2):
            c = c2
        c2 = dict(c, version='3.12')
        if c['version'] != '3.12' and fails(c2):
            c = c2
        return c

    def sample_repr(self, case):
        return {'version': case['version'], 'texts': [short(t, 120) for t in case['texts'][:6]]}


PROP = C04()
