"""C17 — a torn or corrupt cache file is a miss, never a failure (DESIGN §2 C17).  Fault enumeration."""
import builtins
import errno
import glob
import os
import pickle
import shutil
import tempfile
import time
import warnings

from hypothesis import strategies as st

from parso import cache as pcache

from ..common import parent_link_error, scratch_dir, crash_signature, digest, first_tree_diff, grammar, short
from ..engine import Outcome, Prop
from ..gen import text as T

MODULES = [
    'x = 1\n',
    'ü = "é"\n# ☃\n',
    'def f(a, b=1):\n    return a +\n\nclass A:\n  x = (\n',
    ''.join('def f%d(a, *b, **c):\n    """doc"""\n    if a:\n        return [i for i in b if i] + [%d]\n\n' % (i, i) for i in range(12)),
    '',
]
VERSION = '3.12'
ERRNOS = {'ENOSPC': errno.ENOSPC, 'EACCES': errno.EACCES, 'EIO': errno.EIO, 'ENOENT': errno.ENOENT}
PATCH_POINTS = ['open', 'pickle.dump', 'pickle.load', 'file.write', 'file.read', 'os.makedirs', 'os.path.getmtime', 'os.utime',
                'os.remove', 'os.scandir', 'os.listdir', 'os.stat']


class _FileProxy:
    """A file opened by parso.cache under the private root: read()/write() calls are injection points of their own (whatever
    serialises through them - pickle.dump(obj, f) or f.write(bytes))."""

    def __init__(self, f, inj):
        self._f = f
        self._inj = inj

    def write(self, data):
        self._inj.hit('file.write')
        return self._f.write(data)

    def read(self, *a):
        self._inj.hit('file.read')
        return self._f.read(*a)

    def readinto(self, b):
        self._inj.hit('file.read')
        return self._f.readinto(b)

    def readline(self, *a):
        self._inj.hit('file.read')
        return self._f.readline(*a)

    def __enter__(self):
        self._f.__enter__()
        return self

    def __exit__(self, *a):
        return self._f.__exit__(*a)

    def __iter__(self):
        return iter(self._f)

    def __getattr__(self, name):
        return getattr(self._f, name)


class World:
    def __init__(self, content):
        self.root = scratch_dir('vf-c17-')
        self.cdir = os.path.join(self.root, 'cache')
        self.path = os.path.join(self.root, 'mod.py')
        import re
        if re.search(r'coding[=:]', ''.join(content.splitlines(True)[:2])):
            content = '#\n#\n' + content        # keep accidental coding declarations (windows of real code) off lines 1-2
        self.content = content
        self.data = content.encode('utf-8', 'replace')
        with open(self.path, 'wb') as f:
            f.write(self.data)
        t = time.time() - 5000
        os.utime(self.path, (t, t))
        pcache.parser_cache.clear()
        self.g = grammar(VERSION)
        self._fresh = None

    def parse(self):
        return self.g.parse(path=self.path, cache=True, cache_path=self.cdir)

    def fresh(self):
        # decoded the way parso decodes a file (decoding rules themselves are C15)
        if self._fresh is None:
            self._fresh = self.g.parse(self.data)
        return self._fresh

    def pickles(self):
        return glob.glob(os.path.join(self.cdir, '*', '*.pkl'))

    def close(self):
        pcache.parser_cache.clear()
        for dp, dn, fn in os.walk(self.root):
            try:
                os.chmod(dp, 0o700)
            except OSError:
                pass
        shutil.rmtree(self.root, ignore_errors=True)


class Injector:
    """Wraps the file operations parso.cache reaches; counts calls that touch the private root and raises at a chosen index."""

    def __init__(self, root, target=None, index=None, err=None):
        self.root = root
        self.target = target
        self.index = index
        self.err = err
        self.counts = {}
        self.fired = False
        self._saved = []

    def _under(self, args):
        for a in args:
            if hasattr(a, 'name') and isinstance(getattr(a, 'name', None), str):
                a = a.name         # file object
            if isinstance(a, (str, bytes, os.PathLike)):
                try:
                    if os.fspath(a).startswith(self.root):
                        return True
                except TypeError:
                    pass
        return False

    def hit(self, name):
        i = self.counts.get(name, 0)
        self.counts[name] = i + 1
        if name == self.target and i == self.index and not self.fired:
            self.fired = True
            raise OSError(self.err, os.strerror(self.err) + ' (injected)')

    def _wrap(self, name, fn):
        def wrapper(*args, **kw):
            under = self._under(args)
            if under:
                self.hit(name)
            res = fn(*args, **kw)
            if under and name == 'open':
                return _FileProxy(res, self)
            return res
        return wrapper

    def __enter__(self):
        def patch(obj, attr, name, is_dict=False):
            if is_dict:
                had = attr in obj
                old = obj.get(attr)
                obj[attr] = self._wrap(name, old if had else getattr(builtins, attr))
                self._saved.append((obj, attr, old, had, True))
            else:
                old = getattr(obj, attr)
                setattr(obj, attr, self._wrap(name, old))
                self._saved.append((obj, attr, old, True, False))
        patch(pcache.__dict__, 'open', 'open', True)
        patch(pickle, 'dump', 'pickle.dump')
        patch(pickle, 'load', 'pickle.load')
        patch(os, 'makedirs', 'os.makedirs')
        patch(os.path, 'getmtime', 'os.path.getmtime')
        patch(os, 'utime', 'os.utime')
        patch(os, 'remove', 'os.remove')
        patch(os, 'scandir', 'os.scandir')
        patch(os, 'listdir', 'os.listdir')
        return self

    def __exit__(self, *a):
        for obj, attr, old, had, is_dict in reversed(self._saved):
            if is_dict:
                if had:
                    obj[attr] = old
                else:
                    obj.pop(attr, None)
            else:
                setattr(obj, attr, old)
        self._saved = []


def oracle_after_fault(w, call=None):
    """Runs the parse (or ``call``) that meets the fault; returns fail or None."""
    fresh = w.fresh()
    try:
        with warnings.catch_warnings(record=True):
            warnings.simplefilter('always')
            m = (call or w.parse)()
    except Exception as e:
        sig, det = crash_signature(e)
        return ('parse-raises-' + sig, det)
    try:
        d = first_tree_diff(m, fresh) or parent_link_error(m)
    except Exception as e:
        # (a tree unpickled from corrupted bytes can hold anything: even printing the exception may fail)
        try:
            d = 'returned object is not a well-formed tree: %s: %s' % (type(e).__name__, str(e)[:200])
        except BaseException:
            d = 'returned object is not a well-formed tree: %s' % type(e).__name__
    if d:
        return ('wrong-tree-after-fault', d)
    return None


def oracle_repair(w):
    """A later fault-free parse must leave an entry that a restarted process loads from disk."""
    fresh = w.fresh()
    pcache.parser_cache.clear()
    try:
        m = w.parse()
    except Exception as e:
        sig, det = crash_signature(e)
        return ('repair-parse-raises-' + sig, det)
    if first_tree_diff(m, fresh):
        return ('wrong-tree-after-repair', '')
    pcache.parser_cache.clear()
    from parso.file_io import FileIO
    try:
        loaded = pcache.load_module(w.g._hashed, FileIO(w.path), cache_path=__import__('pathlib').Path(w.cdir))
    except Exception as e:
        sig, det = crash_signature(e)
        return ('reload-raises-' + sig, det)
    if loaded is None:
        return ('entry-not-repaired', 'after a fault-free parse the entry does not load from disk')
    if first_tree_diff(loaded, fresh) or parent_link_error(loaded):
        return ('wrong-tree-from-repaired-entry', '')
    return None


def run_fault(case):
    """Returns (fail, info)."""
    content = MODULES[case['module']] if isinstance(case['module'], int) else case['module']
    fault = case['fault']
    kind = fault['kind']
    info = {'reached': True}
    w = World(content)
    try:
        if kind in ('truncate', 'flip', 'empty', 'garbage', 'splice', 'foreign', 'siblings', 'dir'):
            w.parse()
            pcache.parser_cache.clear()
            pks = w.pickles()
            if len(pks) != 1:
                raise AssertionError('expected one pickle, found %r' % pks)
            pk = pks[0]
            with open(pk, 'rb') as f:
                data = f.read()
            if kind == 'truncate':
                if fault['offset'] >= len(data):
                    info['reached'] = False
                    return None, info
                new = data[:fault['offset']]
            elif kind == 'flip':
                if fault['offset'] >= len(data):
                    info['reached'] = False
                    return None, info
                b = bytearray(data)
                b[fault['offset']] ^= fault['xor']
                new = bytes(b)
            elif kind == 'empty':
                new = b''
            elif kind == 'garbage':
                new = bytes.fromhex(fault['hex'])
            elif kind == 'splice':
                # the bytes of *another entry's file*, whatever the on-disk format is: written by the library itself
                other_src = os.path.join(w.root, 'other.py')
                with open(other_src, 'w') as f:
                    f.write('y = [1, 2, 3]\n' * 3)
                w.g.parse(path=other_src, cache=True, cache_path=w.cdir)
                others = [x for x in w.pickles() if x != pk]
                with open(others[0], 'rb') as f:
                    other = f.read()
                os.remove(others[0])
                pcache.parser_cache.clear()
                k = fault['offset'] % (min(len(other), len(data)) + 1)
                new = other[:k] + data[k:]
            elif kind == 'foreign':
                obj = {'dict': {'node': 1}, 'list': [1, 2, 3], 'str': 'x', 'none': None, 'int': 5,
                       'item-without-node': type('X', (), {})}.get(fault['what'])
                if fault['what'] == 'item-without-node':
                    new = pickle.dumps(pcache._NodeCacheItem.__new__(pcache._NodeCacheItem))
                else:
                    new = pickle.dumps(obj)
            else:
                new = data
            if kind == 'siblings':
                vd = os.path.dirname(pk)
                for name in (os.path.basename(pk) + '.tmp', 'leftover.tmp', os.path.basename(pk)[:-4] + '.pkl.part', 'zero.pkl'):
                    with open(os.path.join(vd, name), 'wb') as f:
                        f.write(b'' if 'zero' in name else data[:len(data) // 2])
            elif kind == 'dir':
                vd = os.path.dirname(pk)
                if fault['what'] == 'missing':
                    shutil.rmtree(vd)
                elif fault['what'] == 'cache-dir-missing':
                    shutil.rmtree(w.cdir)
                elif fault['what'] == 'file-instead-of-version-dir':
                    shutil.rmtree(vd)
                    with open(vd, 'w') as f:
                        f.write('x')
                elif fault['what'] == 'file-instead-of-cache-dir':
                    shutil.rmtree(w.cdir)
                    with open(w.cdir, 'w') as f:
                        f.write('x')
            else:
                with open(pk, 'wb') as f:
                    f.write(new)
                now = time.time()
                os.utime(pk, (now, now))
            fail = oracle_after_fault(w)
            if kind == 'splice' and fail is not None and fail[0] == 'wrong-tree-after-fault':
                # root cause: the cache file has no integrity check, so a partial overwrite whose bytes still unpickle to a
                # cache item is loaded as is (listed finding F-C17-2)
                try:
                    ok = isinstance(pickle.loads(new), pcache._NodeCacheItem)
                except Exception:
                    ok = False
                if ok:
                    fail = ('wrong-tree-after-fault+partial-overwrite-still-unpickles', fail[1])
                return fail, info
            if kind == 'flip' and fail is not None and fail[0] == 'wrong-tree-after-fault':
                # a flipped byte can yield a *valid* pickle of a different tree; no crash / full disk / concurrent writer
                # produces that, and it is undetectable without a checksum: outside the statement, only counted
                info['undetectable'] = True
                return None, info
            if fail is None and not (kind == 'dir' and fault['what'].startswith('file-instead')):
                fail = oracle_repair(w)
            return fail, info
        if kind == 'inject':
            scenario = fault['scenario']
            if scenario in ('load', 'cleanup'):
                w.parse()
                pcache.parser_cache.clear()
            if scenario == 'cleanup':
                # clean-up runs when the lock file is older than a day: age it, and add old + recent entries
                lock = os.path.join(w.cdir, 'PARSO-CACHE-LOCK')
                old = time.time() - 3 * 86400
                if os.path.exists(lock):
                    os.utime(lock, (old, old))
                vd = os.path.dirname(w.pickles()[0])
                for name, age in (('old1.pkl', 40), ('old2.pkl', 31), ('recent.pkl', 2)):
                    pth = os.path.join(vd, name)
                    with open(pth, 'wb') as f:
                        f.write(b'x')
                    t = time.time() - age * 86400
                    os.utime(pth, (t, t))
                # make the next parse a miss that saves again (which triggers the clean-up)
                t = time.time() - 100
                os.utime(w.path, (t, t))
                for pkl in w.pickles():
                    if os.path.basename(pkl) not in ('old1.pkl', 'old2.pkl', 'recent.pkl'):
                        os.utime(pkl, (time.time(), t - 1000))
            inj = Injector(w.root, fault['func'], fault['index'], ERRNOS[fault['errno']])
            with inj:
                fail = oracle_after_fault(w)
            info['reached'] = inj.fired
            if not inj.fired:
                return None, info
            if fail is None:
                fail = oracle_repair(w)
            if fail is not None:
                fail = (fail[0] + '+injected:%s:%s' % (fault['func'], scenario), fail[1])
            return fail, info
        if kind == 'interleave':
            # a writer's pickle.dump split into chunks; a reader (restarted process) runs between two chunks
            w.parse()
            pcache.parser_cache.clear()
            pk = w.pickles()[0]
            with open(pk, 'rb') as f:
                data = f.read()
            n = fault['chunks']
            at = fault['at'] % n
            cut = (len(data) * (at + 1)) // (n + 1)
            # the writer has truncated the file and written `cut` bytes so far
            with open(pk, 'wb') as f:
                f.write(data[:cut])
            now = time.time()
            os.utime(pk, (now, now))
            fail = oracle_after_fault(w)       # reader
            # the writer finishes
            with open(pk, 'wb') as f:
                f.write(data)
            if fail is None:
                pcache.parser_cache.clear()
                fail = oracle_after_fault(w)
            if fail is None:
                fail = oracle_repair(w)
            return fail, info
        if kind == 'two_process':
            # REAL concurrency (thorough tier only; not deterministic - it can only add genuine failures, and what is saved is the
            # observed failure text): a writer process that keeps deleting and re-saving the entry, and this process as a reader
            # that forgets its memory and parses again and again; the file itself never changes.
            w.parse()
            fresh = w.fresh()
            rfd, wfd = os.pipe()
            pid = os.fork()
            if pid == 0:
                status = 0
                try:
                    os.close(rfd)
                    end = time.time() + fault['seconds']
                    msg = b''
                    n = 0
                    while time.time() < end:
                        n += 1
                        try:
                            for pk_ in w.pickles():
                                if n % 3 == 0:
                                    try:
                                        os.remove(pk_)
                                    except OSError:
                                        pass
                            pcache.parser_cache.clear()
                            if n % 2:
                                t_ = time.time() - 4900 + n * 0.01   # touch (newer than before, always in the past): the entry on disk becomes outdated and is re-saved
                                os.utime(w.path, (t_, t_))
                            with warnings.catch_warnings():
                                warnings.simplefilter('ignore')
                                m_ = w.parse()
                            d_ = first_tree_diff(m_, fresh)
                            if d_:
                                msg = ('writer got a wrong tree: %s' % d_).encode('utf-8', 'replace')
                                break
                        except Exception as e:     # noqa
                            msg = ('writer: %s: %s' % (type(e).__name__, str(e)[:200])).encode('utf-8', 'replace')
                            break
                    os.write(wfd, (b'%d\n' % n) + msg)
                except BaseException:
                    status = 1
                finally:
                    os._exit(status)
            os.close(wfd)
            fail = None
            reads = 0
            end = time.time() + fault['seconds']
            try:
                while time.time() < end and fail is None:
                    reads += 1
                    pcache.parser_cache.clear()
                    fail = oracle_after_fault(w)
                    if fail is not None:
                        fail = (fail[0] + '+two-processes', fail[1])
            finally:
                with os.fdopen(rfd, 'rb') as fh:
                    out = fh.read()
                os.waitpid(pid, 0)
            writes, _, wmsg = out.partition(b'\n')
            info['two_process'] = {'reads': reads, 'writes': int(writes or 0)}
            if fail is None and wmsg:
                fail = ('parse-fails-in-concurrent-writer', wmsg.decode('utf-8', 'replace'))
            if fail is None:
                fail = oracle_repair(w)
            return fail, info
        if kind == 'maintenance':
            w.parse()
            pk = w.pickles()[0]
            vd = os.path.dirname(pk)
            now = time.time()
            entries = {}
            for i, age_days in enumerate(fault['ages']):
                # an age is either one number (accessed and written then) or [access age, write age]: an entry that was
                # written long ago but read recently is in use
                a_age, m_age = (age_days if isinstance(age_days, (list, tuple)) else (age_days, age_days))
                pth = os.path.join(vd, 'entry%d.pkl' % i)
                with open(pth, 'wb') as f:
                    f.write(b'payload%d' % i)
                os.utime(pth, (now - a_age * 86400, now - m_age * 86400))
                entries[pth] = a_age
            os.utime(pk, (now - fault['own_age'] * 86400, os.path.getmtime(pk)))
            entries[pk] = fault['own_age']
            lock = os.path.join(w.cdir, 'PARSO-CACHE-LOCK')
            t = now - fault['lock_age'] * 86400
            os.utime(lock, (t, t))
            before = {p: open(p, 'rb').read() for p in entries}
            # trigger: a miss followed by a save
            # the source file itself may be old (a vendored file, an unpacked archive): its age says nothing about the entry's use
            t2 = now - 50 - fault.get('src_age', 0) * 86400
            os.utime(w.path, (t2, t2))
            os.utime(pk, (os.stat(pk).st_atime, t2 - 100))
            pcache.parser_cache.clear()
            fail = oracle_after_fault(w)
            if fail is None:
                for pth, age in entries.items():
                    if pth == pk:
                        continue
                    if age < 29.5 and not os.path.exists(pth):
                        return ('cleanup-removed-entry-in-use', 'entry accessed %.1f days ago was deleted' % age), info
                    if os.path.exists(pth) and open(pth, 'rb').read() != before[pth]:
                        return ('cleanup-modified-entry', pth), info
                if not os.path.exists(pk):
                    return ('cleanup-removed-own-entry', ''), info
                fail = oracle_repair(w)
            return fail, info
        raise AssertionError('unknown fault kind %r' % kind)
    finally:
        w.close()


def count_calls(scenario):
    """How often each patched function is reached (under the private root) in a scenario, per module 0."""
    w = World(MODULES[0])
    try:
        if scenario in ('load', 'cleanup'):
            w.parse()
            pcache.parser_cache.clear()
        if scenario == 'cleanup':
            lock = os.path.join(w.cdir, 'PARSO-CACHE-LOCK')
            old = time.time() - 3 * 86400
            os.utime(lock, (old, old))
            vd = os.path.dirname(w.pickles()[0])
            for name, age in (('old1.pkl', 40), ('old2.pkl', 31), ('recent.pkl', 2)):
                pth = os.path.join(vd, name)
                with open(pth, 'wb') as f:
                    f.write(b'x')
                t = time.time() - age * 86400
                os.utime(pth, (t, t))
            t = time.time() - 100
            os.utime(w.path, (t, t))
            for pkl in w.pickles():
                if os.path.basename(pkl) not in ('old1.pkl', 'old2.pkl', 'recent.pkl'):
                    os.utime(pkl, (time.time(), t - 1000))
        inj = Injector(w.root)
        with inj:
            try:
                with warnings.catch_warnings():
                    warnings.simplefilter('ignore')
                    w.parse()
            except Exception:
                pass
        return dict(inj.counts)
    finally:
        w.close()


_POISONED = False
_BASELINE = None


def _class_state():
    """Names in the __dict__ of every class of parso.tree / parso.python.tree (a corrupted pickle can add or replace them)."""
    import parso.python.tree as pt
    import parso.tree as bt
    out = {}
    for mod in (bt, pt):
        for name, obj in vars(mod).items():
            if isinstance(obj, type) and obj.__module__ == mod.__name__:
                # (__slotnames__ is copyreg's own cache, written the first time an instance is pickled)
                out[mod.__name__ + '.' + name] = sorted((k, id(v)) for k, v in vars(obj).items() if k != '__slotnames__')
    return out


def process_state_damage():
    """None, or a description of how the tree classes differ from their state at start-up / a small parse fails."""
    global _BASELINE
    cur = _class_state()
    if _BASELINE is None:
        _BASELINE = cur
        return None
    for k in cur:
        if cur[k] != _BASELINE.get(k):
            a, b = dict(_BASELINE.get(k, [])), dict(cur[k])
            changed = sorted(set(a) ^ set(b)) or sorted(x for x in a if a[x] != b.get(x))
            return 'class %s: attributes added/removed/replaced: %r' % (k, changed[:5])
    try:
        import parso
        parso.parse('x = (1)\ndef f(a): pass\n').get_code()
    except Exception as e:
        return 'a plain parse now raises %s: %s' % (type(e).__name__, str(e)[:120])
    return None


class C17(Prop):
    id = 'C17'
    level = 'fault_enumeration'
    rule = ('Enumerated: for 5 modules (tiny, unicode, with error nodes, ~70 lines, empty): EVERY truncation offset of the pickle '
            '(quick: every offset of pickles < 700 bytes, every 3rd / 11th (seed-rotated) of the larger ones; thorough: all), single-byte '
            'flips at every 17th (quick: 61st) offset x 2 masks (oracle: no exception; a flip that yields a valid pickle of another tree is not claimed), empty file, garbage, partial overwrite (prefix of the file of another entry as written by the library + tail of this one; prefix of another pickle + suffix of the old one) at 16 '
            'offsets, valid pickles of 6 foreign objects, leftover *.tmp / zero-length siblings, version/cache directory missing or '
            'replaced by a file; exception injection (ENOSPC, EACCES, EIO, ENOENT) at EVERY call index of open / file write / file read / pickle.dump / '
            'pickle.load / os.makedirs / os.path.getmtime / os.utime / os.remove / os.scandir / os.listdir reached under the private '
            'cache directory in the save, load and clean-up scenarios; a two-party interleaving (writer paused after k of n chunks, '
            'reader in between); maintenance with the lock aged past a day and entries with access times on both sides of 30 days, the source file itself recent or months old. '
            'Generated: random module texts x random fault subsets. Oracle: parse(path, cache=True) does not raise (warnings allowed) '
            'and returns the tree of the file content; a later fault-free parse leaves an entry that loads from disk after a memory '
            'drop; clean-up never deletes an entry accessed within the limit nor modifies a pickle; after every case the *process* is intact '
            '(class dictionaries of the tree classes unchanged, a plain parse works - unpickling corrupted bytes can modify classes). Non-trivial: the fault was reached '
            '(injected call executed / on-disk state changed). Distinct by (module, fault).')
    assumptions = ['runs as root: permission bits are not enforced, read-only directories are modelled by EACCES injection',
                   'two processes: the deterministic writer/reader interleaving in both tiers; the thorough tier adds a REAL two-process stress (a forked writer that deletes / outdates / re-saves the entry while this process re-reads it), which is not deterministic and can only add genuine failures',
                   'workers run under an 8 GiB address-space limit: allocation bombs of corrupted pickles show as MemoryError (which parse() must survive), not as an out-of-memory kill of the machine']
    budgets = {'quick': 2000, 'thorough': 240000}
    time_caps = {'quick': 200, 'thorough': 1500}
    shrink_fields = ()
    min_nontrivial_fraction = 0.05
    track_cases = True      # the engine keeps the case being evaluated on tmpfs, so a killed worker can be attributed

    def setup_shard(self, tier, seed, shard):
        # A flipped byte in a pickle can turn a memo index / length into a huge number: the C unpickler then allocates (and
        # zero-fills) tens of GB before failing - seen as a 21 GB worker killed by the OOM killer.  With an address-space
        # limit the same allocation fails at once with MemoryError, which parse() has to survive like any other corrupt file.
        import resource
        lim = 8 << 30
        soft, hard = resource.getrlimit(resource.RLIMIT_AS)
        if soft == resource.RLIM_INFINITY or soft > lim:
            resource.setrlimit(resource.RLIMIT_AS, (lim, hard))
        process_state_damage()       # records the baseline

    def strategy(self, tier):
        fault = st.one_of(
            st.builds(lambda o: {'kind': 'truncate', 'offset': o}, st.integers(0, 4000)),
            st.builds(lambda o, x: {'kind': 'flip', 'offset': o, 'xor': x}, st.integers(0, 4000), st.integers(1, 255)),
            st.builds(lambda b: {'kind': 'garbage', 'hex': b.hex()}, st.binary(max_size=40)),
            st.builds(lambda o: {'kind': 'splice', 'offset': o}, st.integers(0, 4000)),
            st.builds(lambda n, a: {'kind': 'interleave', 'chunks': n, 'at': a}, st.integers(1, 12), st.integers(0, 11)),
            st.builds(lambda ages, own, lock, src: {'kind': 'maintenance', 'ages': ages, 'own_age': own, 'lock_age': lock, 'src_age': src},
                      st.lists(st.one_of(st.sampled_from([0.1, 1, 10, 29, 29.4, 31, 45, 400]),
                                         st.tuples(st.sampled_from([0.04, 1, 20, 29, 31, 60]), st.sampled_from([0.04, 10, 31, 45, 400])).map(list)),
                               min_size=1, max_size=5),
                      st.sampled_from([0, 1, 20, 29]), st.sampled_from([0.5, 1.5, 3, 100]), st.sampled_from([0, 0, 3, 40, 400])),
            st.builds(lambda s, f, i, e: {'kind': 'inject', 'scenario': s, 'func': f, 'index': i, 'errno': e},
                      st.sampled_from(['save', 'load', 'cleanup']), st.sampled_from(PATCH_POINTS[:-1]), st.integers(0, 3),
                      st.sampled_from(sorted(ERRNOS))),
        )
        module = st.one_of(st.integers(0, len(MODULES) - 1), T.soup(12), T.corpus_window(('repo',), max_lines=15))
        return st.fixed_dictionaries({'module': module, 'fault': fault})

    def enumerate(self, tier, seed):
        if tier == 'thorough':
            for mi in range(len(MODULES)):
                for k in range(4):
                    yield {'module': mi, 'fault': {'kind': 'two_process', 'seconds': 4, 'round': k}}
        sizes = {}
        for mi, content in enumerate(MODULES):
            w = World(content)
            try:
                w.parse()
                sizes[mi] = os.path.getsize(w.pickles()[0])
            finally:
                w.close()
        for mi in range(len(MODULES)):
            n = sizes[mi]
            step = 1 if (tier == 'thorough' or n < 700) else (3 if n < 1500 else 11)
            for off in range((seed % step) if step > 1 else 0, n, step):
                yield {'module': mi, 'fault': {'kind': 'truncate', 'offset': off}}
            for off in range(0, n, 17 if tier == 'thorough' else 61):
                for x in (0x01, 0x80):
                    yield {'module': mi, 'fault': {'kind': 'flip', 'offset': off, 'xor': x}}
            yield {'module': mi, 'fault': {'kind': 'empty'}}
            for hx in ('00', '80', '8004', 'ffffffff', b'garbage'.hex(), (b'\x80\x04\x95' + b'\xff' * 8).hex(), b'cos\nsystem\n(S"true"\ntR.'.hex()[:0] or '4e2e'):
                yield {'module': mi, 'fault': {'kind': 'garbage', 'hex': hx}}
            for k in range(16):
                yield {'module': mi, 'fault': {'kind': 'splice', 'offset': (n * k) // 16}}
            for what in ('dict', 'list', 'str', 'none', 'int', 'item-without-node'):
                yield {'module': mi, 'fault': {'kind': 'foreign', 'what': what}}
            yield {'module': mi, 'fault': {'kind': 'siblings'}}
            for what in ('missing', 'cache-dir-missing', 'file-instead-of-version-dir', 'file-instead-of-cache-dir'):
                yield {'module': mi, 'fault': {'kind': 'dir', 'what': what}}
            for nch in (1, 2, 3, 5, 8):
                for at in range(nch):
                    yield {'module': mi, 'fault': {'kind': 'interleave', 'chunks': nch, 'at': at}}
        self._call_counts = {}
        for scenario in ('save', 'load', 'cleanup'):
            counts = count_calls(scenario)
            self._call_counts[scenario] = counts
            for func in PATCH_POINTS:
                for idx in range(counts.get(func, 0)):
                    for en in sorted(ERRNOS):
                        yield {'module': 0, 'fault': {'kind': 'inject', 'scenario': scenario, 'func': func, 'index': idx, 'errno': en}}
        for ages in ([0.1, 29, 31, 45], [1, 10], [400], [29.4, 31], [[0.04, 45], [1, 400], [40, 1]], [[0.5, 31], [35, 35]]):
            for own in (0, 20):
                for lock in (0.5, 1.5, 100):
                    yield {'module': 1, 'fault': {'kind': 'maintenance', 'ages': ages, 'own_age': own, 'lock_age': lock}}
                    yield {'module': 1, 'fault': {'kind': 'maintenance', 'ages': ages, 'own_age': own, 'lock_age': lock, 'src_age': 90}}

    def extra_evidence(self, tier):
        return {'injection_points_reached': getattr(self, '_call_counts', {})}

    def check(self, case):
        global _POISONED
        if _POISONED:
            return Outcome(excluded='worker state was corrupted by an earlier case (reported there)')
        fail, info = run_fault(case)
        if fail is None or not fail[0].startswith('process-state'):
            bad = process_state_damage()
            if bad:
                # unpickling a corrupted file may execute BUILD/setattr on parso's own classes: the damage outlives the call
                _POISONED = True
                fail = ('process-state-corrupted-by-corrupt-cache-file', bad)
        f = case['fault']
        classes = [f['kind']]
        if f['kind'] == 'inject':
            classes.append('inject:%s:%s' % (f['scenario'], f['func']))
        if info.get('undetectable'):
            classes.append('flip-gives-valid-pickle-of-other-tree(not claimed)')
        units = 1
        if info.get('two_process'):
            units = info['two_process']['reads'] + info['two_process']['writes']
            classes.append('real-two-process-stress')
        return Outcome(fail=fail, nontrivial=bool(info.get('reached')), classes=classes,
                       key=digest(case['module'], sorted(f.items())), units=units)

    def sample_repr(self, case):
        m = case['module']
        return {'module': m if isinstance(m, int) else short(m, 80), 'fault': case['fault']}


PROP = C17()
