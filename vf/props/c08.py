"""C08 — the parser generator is faithful and truly LL(1) (DESIGN §2 C08)."""
import glob
import os

from hypothesis import strategies as st

from parso.pgen2 import generate_grammar
from parso.pgen2.generator import ReservedString
from parso.python.token import PythonTokenTypes

from ..common import REPO, crash_signature, digest, short
from ..engine import Outcome, Prop
from ..model import ebnf

TOKENS = ['NAME', 'NUMBER', 'STRING', 'NEWLINE', 'INDENT', 'DEDENT', 'ENDMARKER']
STRINGS = ["'a'", "'b'", "'if'", "'else'", "'('", "')'", "'+'", '"*"', "','", "':'", '"x"',
           # other spellings of the same terminals, and terminals that need an escape: a grammar terminal is a Python string
           # literal, so '\x61', "a" and '\141' are all the keyword a
           "'\\x61'", '"a"', "'\\141'", '"\\x62"', "'\\''", '"\\""', "'\\\\'", '"if"', "'\\x2b'"]


def grammar_files():
    return sorted(glob.glob(os.path.join(REPO, 'parso', 'python', 'grammar*.txt')))


# ---- random grammars --------------------------------------------------------------------------

def _rhs(nrules, depth):
    sym = st.one_of(st.sampled_from(TOKENS), st.sampled_from(STRINGS), st.sampled_from(STRINGS[:4]),
                    st.integers(0, nrules - 1).map(lambda i: 'r%d' % i)).map(lambda s: ('sym', s))
    if depth <= 0:
        return sym
    sub = _rhs(nrules, depth - 1)
    return st.one_of(
        sym, sym,
        st.lists(sub, min_size=2, max_size=3).map(lambda l: ('seq', l)),
        st.lists(sub, min_size=2, max_size=3).map(lambda l: ('alt', l)),
        sub.map(lambda a: ('opt', a)),
        sub.map(lambda a: ('star', a)),
        sub.map(lambda a: ('plus', a)),
    )


@st.composite
def _confusable(draw, nrules):
    """A rule whose branches reach states with equal label sets and equal successor sets but a different pairing, e.g.
    'x' (A c | B d) | 'y' (A d | B c): a state-merging step that compares labels and targets separately conflates them."""
    sym = st.one_of(st.sampled_from(TOKENS), st.sampled_from(STRINGS)).map(lambda s_: ('sym', s_))
    k = draw(st.integers(2, 3))
    heads = [draw(sym) for _ in range(k)]
    tails = [draw(sym) for _ in range(k)]
    if len({h[1] for h in heads}) < k or len({t[1] for t in tails}) < k:
        heads = [('sym', x) for x in TOKENS[:k]]
        tails = [('sym', x) for x in STRINGS[:k]]
    perm = draw(st.permutations(list(range(k))))
    lead1, lead2 = ('sym', "'x'"), ('sym', '"*"')
    wrap = draw(st.sampled_from(['none', 'none', 'star', 'opt', 'plus']))

    def branch(lead, order):
        alts = [('seq', [heads[i], tails[order[i]]]) for i in range(k)]
        return ('seq', [lead, ('alt', alts)])
    r = ('alt', [branch(lead1, list(range(k))), branch(lead2, list(perm))])
    if wrap != 'none':
        r = (wrap, r)
    return r


@st.composite
def _conflicting(draw, n):
    """{rule index: rhs}: rules built to be non-LL(1) (or just barely LL(1)) in one of the ways a state can claim a token twice:
    direct terminal vs nonterminal arc to the *same* rule / another rule / a chain of rules, two nonterminal arcs, an optional
    nonterminal before the same terminal.  Whether it really is a conflict is the reference's business."""
    def sym(x):
        return ('sym', x)
    t = draw(st.sampled_from(STRINGS + TOKENS[:3]))
    u = draw(st.sampled_from(STRINGS + TOKENS[:3]))
    k = draw(st.integers(0, n - 1))
    j = (k + 1 + draw(st.integers(0, n - 2))) % n if n > 1 else k
    i = (j + 1) % n
    rk, rj, ri = 'r%d' % k, 'r%d' % j, 'r%d' % i
    tail = draw(st.sampled_from(TOKENS[:3]))
    shape = draw(st.integers(0, 6))
    if shape == 0:      # rK: t [rK] t X     (terminal vs recursive reference to the rule itself)
        return {k: ('seq', [sym(t), ('opt', sym(rk)), sym(t), sym(tail)])}
    if shape == 1:      # rK: t (rK | t X)* u
        return {k: ('seq', [sym(t), ('star', ('alt', [sym(rk), ('seq', [sym(t), sym(tail)])])), sym(u)])}
    if shape == 2:      # rK: t X | rJ Y ; rJ: t Z
        return {k: ('alt', [('seq', [sym(t), sym(tail)]), ('seq', [sym(rj), sym(u)])]), j: ('seq', [sym(t), sym('NUMBER')])}
    if shape == 3:      # rK: rI X | rJ Y ; rI: t ; rJ: [u] t
        if len({k, j, i}) < 3:
            return {k: ('alt', [sym(rj), sym(t)]), j: sym(t)}
        return {k: ('alt', [('seq', [sym(ri), sym(tail)]), ('seq', [sym(rj), sym(u)])]), i: sym(t), j: ('seq', [('opt', sym(u)), sym(t)])}
    if shape == 4:      # rK: [rJ] t ; rJ: t X
        return {k: ('seq', [('opt', sym(rj)), sym(t)]), j: ('seq', [sym(t), sym(tail)])}
    if shape == 5:      # chain: rK: rJ | t ; rJ: rI ; rI: t
        if len({k, j, i}) < 3:
            return {k: ('alt', [sym(rj), sym(t)]), j: sym(t)}
        return {k: ('alt', [sym(rj), sym(t)]), j: sym(ri), i: ('seq', [sym(t), sym(tail)])}
    # barely LL(1): same shapes with two different terminals
    return {k: ('alt', [('seq', [sym(t), sym(tail)]), ('seq', [sym(rj), sym(u)])]), j: ('seq', [sym(u), sym('NUMBER')])}


@st.composite
def random_grammar(draw):
    n = draw(st.integers(2, 7))
    depth = draw(st.integers(1, 4))
    rules = [draw(_rhs(n, depth)) for _ in range(n)]
    if draw(st.integers(0, 4)) == 0:
        rules[draw(st.integers(0, n - 1))] = draw(_confusable(n))
    if draw(st.integers(0, 4)) == 0:
        for idx, rhs in draw(_conflicting(n)).items():
            rules[idx] = rhs
    layout = draw(st.lists(st.integers(0, 5), min_size=8, max_size=8))
    return {'kind': 'random', 'rules': [to_json(r) for r in rules], 'layout': layout}


def to_json(a):
    if a[0] == 'sym':
        return ['sym', a[1]]
    if a[0] in ('seq', 'alt'):
        return [a[0], [to_json(x) for x in a[1]]]
    return [a[0], to_json(a[1])]


def from_json(a):
    if a[0] == 'sym':
        return ('sym', a[1])
    if a[0] in ('seq', 'alt'):
        return (a[0], [from_json(x) for x in a[1]])
    return (a[0], from_json(a[1]))


def normalise(a):
    """Canonical form of what a reader must produce: nested seq/alt of one element collapse; seq in seq is kept
    only when parenthesised in the text, which render() always does, so the structure is preserved."""
    return a


def render(a, layout, ctx='top', k=[0]):
    def sp():
        k[0] += 1
        return [' ', ' ', '  ', ' ', '\t', ' '][layout[k[0] % len(layout)]]

    def nl_in_bracket():
        k[0] += 1
        return ['', '', '\n    ', '', ' # c\n  ', ''][layout[k[0] % len(layout)]]
    t = a[0]
    if t == 'sym':
        return a[1]
    if t == 'seq':
        s = sp().join(render(x, layout, 'seq') for x in a[1])
        return '(' + nl_in_bracket() + s + ')' if ctx in ('seq', 'rep') else s
    if t == 'alt':
        s = (sp() + '|' + sp()).join(render(x, layout, 'alt') for x in a[1])
        return '(' + nl_in_bracket() + s + nl_in_bracket() + ')' if ctx in ('seq', 'rep', 'alt') else s
    if t == 'opt':
        return '[' + nl_in_bracket() + render(a[1], layout, 'top') + ']'
    inner = render(a[1], layout, 'rep')
    if a[1][0] in ('star', 'plus', 'opt'):
        inner = '(' + inner + ')'
    return inner + ('*' if t == 'star' else '+')


def render_grammar(rules, layout):
    lines = ['# generated grammar\n']
    for i, r in enumerate(rules):
        lines.append('r%d:%s%s\n' % (i, ' ' if layout[i % len(layout)] % 2 == 0 else '', render(r, layout, 'top', [i])))
        if layout[(i + 3) % len(layout)] == 0:
            lines.append('\n')
    return ''.join(lines)


def has_nested_operator(a, inside=False):
    if a[0] == 'sym':
        return False
    if a[0] in ('seq', 'alt'):
        return any(has_nested_operator(x, inside or a[0] == 'alt') for x in a[1]) or (inside and a[0] == 'alt')
    if inside:
        return True
    return has_nested_operator(a[1], True)


# ---- comparison -------------------------------------------------------------------------------

def compare_grammar(text):
    """Returns (fail, info). fail None or (signature, detail)."""
    info = {'rules': 0, 'states': 0, 'pgen_states': 0, 'merged': False, 'rejected': None, 'transitions': 0}
    order, asts = ebnf.read_grammar(text)
    dfas = {name: ebnf.to_dfa(asts[name]) for name in order}
    expected_reject = None
    tables = None
    try:
        tables = ebnf.expected_tables(dfas)
    except ebnf.LL1Conflict as e:
        expected_reject = 'conflict %r' % (e.args[0],)
    except ebnf.LeftRecursion as e:
        expected_reject = 'left recursion via %s' % e.args[0]
    info['rejected'] = expected_reject
    try:
        g = generate_grammar(text, PythonTokenTypes)
    except ValueError as e:
        if expected_reject is None:
            return ('rejects-ll1-grammar', 'generate_grammar raised %s but the reference finds the grammar LL(1)' % short(str(e), 200)), info
        # generation is a function of the grammar text: a caller that catches the error and asks again gets the error again
        try:
            generate_grammar(text, PythonTokenTypes)
        except ValueError:
            return None, info
        except RecursionError:
            raise
        except Exception as e2:
            return crash_signature(e2), info
        return ('accepts-non-ll1-grammar', 'reference: %s; generate_grammar rejected the text at the first call and accepted it at the second' % expected_reject), info
    except RecursionError:
        raise
    except Exception as e:
        return crash_signature(e), info
    if expected_reject is not None:
        return ('accepts-non-ll1-grammar', 'reference: %s; generate_grammar resolved it silently' % expected_reject), info
    if list(g.nonterminal_to_dfas) != order:
        return ('rule-order', '%r vs %r' % (list(g.nonterminal_to_dfas)[:5], order[:5])), info
    if g.start_nonterminal != order[0]:
        return ('start-rule', '%r' % g.start_nonterminal), info
    pairs = {}
    for name in order:
        trans, finals, n = dfas[name]
        pg = g.nonterminal_to_dfas[name]
        info['rules'] += 1
        info['states'] += n
        info['pgen_states'] += len(pg)
        if len(pg) < n:
            info['merged'] = True
        seen = set()
        todo = [(0, pg[0])]
        while todo:
            a, b = todo.pop()
            if (a, id(b)) in seen:
                continue
            seen.add((a, id(b)))
            if (a in finals) != b.is_final:
                return ('automaton-finality', 'rule %s: reference state %d final=%r, generated is_final=%r' % (name, a, a in finals, b.is_final)), info
            mine = {sym: t for (s, sym), t in trans.items() if s == a}
            spelled = {}
            for label in b.arcs:
                canon = repr(ebnf.terminal_key(label)[1]) if label[0] in '"\'' else label
                if canon in spelled:
                    return ('one-terminal-two-arcs', 'rule %s state %d: the labels %r and %r are the same terminal but separate arcs '
                            '(the later one overwrites the transition of the earlier one)' % (name, a, spelled[canon], label)), info
                spelled[canon] = label
            if set(mine) != set(spelled):
                return ('automaton-arcs', 'rule %s state %d: reference arcs %r, generated %r' % (name, a, sorted(mine), sorted(b.arcs))), info
            if b.from_rule != name:
                return ('state-from-rule', 'rule %s has a state labelled %s' % (name, b.from_rule)), info
            for sym, t in mine.items():
                todo.append((t, b.arcs[spelled[sym]]))
        if {i for _, i in seen} != {id(s) for s in pg}:
            return ('unreachable-generated-state', 'rule %s' % name), info
        pairs[name] = seen
    # token -> action tables
    bymy = {}
    for name in order:
        pg = {id(s): s for s in g.nonterminal_to_dfas[name]}
        for a, bid in pairs[name]:
            b = pg[bid]
            exp = tables[(name, a)]
            got = {}
            for tr, plan in b.transitions.items():
                key = ('str', tr.value) if isinstance(tr, ReservedString) else ('tok', tr.name)
                if key in got:
                    return ('token-claimed-twice', 'rule %s: %r' % (name, key)), info
                got[key] = plan
            if set(got) != set(exp):
                return ('transition-keys', 'rule %s state %d: expected %r got %r' % (name, a, sorted(exp), sorted(got))), info
            for key, plan in got.items():
                info['transitions'] += 1
                t, chain = exp[key]
                if (t, id(plan.next_dfa)) not in pairs[name]:
                    return ('transition-target', 'rule %s state %d token %r' % (name, a, key)), info
                pushes = list(plan.dfa_pushes)
                if [d.from_rule for d in pushes] != [c[0] for c in chain]:
                    return ('push-chain-rules', 'rule %s state %d token %r: expected %r got %r'
                            % (name, a, key, [c[0] for c in chain], [d.from_rule for d in pushes])), info
                for d, (rn, stt) in zip(pushes, chain):
                    if (stt, id(d)) not in pairs[rn]:
                        return ('push-chain-state', 'rule %s state %d token %r: pushed state of %s is not the state after the token' % (name, a, key, rn)), info
    # reserved strings = quoted terminals
    quoted = set()
    for name in order:
        for (s, sym) in dfas[name][0]:
            if sym[0] in '"\'':
                quoted.add(ebnf.terminal_key(sym)[1])
    if set(g.reserved_syntax_strings) != quoted:
        return ('reserved-strings', '%r' % sorted(set(g.reserved_syntax_strings) ^ quoted)), info
    for k, v in g.reserved_syntax_strings.items():
        if not isinstance(v, ReservedString) or v.value != k:
            return ('reserved-strings', 'entry %r -> %r' % (k, v)), info
    return None, info


class C08(Prop):
    id = 'C08'
    rule = ('Enumerated exhaustively every run: all rules and automaton states of every parso/python/grammar*.txt present. '
            'Generated: random well-formed EBNF grammars (2-7 rules; alternation, grouping, option, star, plus, nesting <=4; token '
            'names and quoted strings; nonterminals always defined; random layout with comments and bracketed newlines). Oracle: '
            'independent reader -> Thompson NFA -> subset construction; pairwise bisimulation with nonterminal_to_dfas (finality, '
            'arc labels, all generated states reached) = language equality; per state transitions == direct terminal arcs + first '
            'tokens of each nonterminal arc with next_dfa / dfa_pushes equal to the recomputed chain, no token twice; reserved '
            'strings == quoted terminals; ValueError iff the reference finds a first-token conflict in some state or left recursion '
            'through first-state nonterminal arcs. Non-trivial: random grammar with a nested operator and (conflict or left '
            'recursion or >=2 states merged by simplification); shipped files are non-trivial. Distinct by grammar text.')
    budgets = {'quick': 6000, 'thorough': 200000}
    shrink_fields = ()
    min_nontrivial_fraction = 0.05

    def strategy(self, tier):
        return random_grammar()

    def enumerate(self, tier, seed):
        for f in grammar_files():
            yield {'kind': 'file', 'file': os.path.basename(f)}

    def check(self, case):
        if case['kind'] == 'file':
            with open(os.path.join(REPO, 'parso', 'python', case['file'])) as f:
                text = f.read()
            nested = True
        else:
            rules = [from_json(r) for r in case['rules']]
            text = render_grammar(rules, case['layout'])
            # harness self-check: the independent reader recovers the generated ASTs' language-relevant structure
            order, asts = ebnf.read_grammar(text)
            if order != ['r%d' % i for i in range(len(rules))]:
                raise AssertionError('renderer/reader disagreement on rule names: %r' % text)
            nested = any(has_nested_operator(r) for r in rules)
        try:
            fail, info = compare_grammar(text)
        except RecursionError:
            return Outcome(excluded='recursion-limit')
        classes = []
        if info['rejected']:
            classes.append('non-ll1:' + info['rejected'].split()[0])
        else:
            classes.append('ll1')
        if info['merged']:
            classes.append('states-merged')
        if nested:
            classes.append('nested-operator')
        nt = case['kind'] == 'file' or (nested and (info['rejected'] is not None or info['merged']))
        if fail is not None:
            fail = (fail[0], fail[1] + ' | grammar: ' + short(text, 300))
        self._tot_rules = getattr(self, '_tot_rules', 0) + (info['rules'] if case['kind'] == 'file' else 0)
        self._tot_states = getattr(self, '_tot_states', 0) + (info['pgen_states'] if case['kind'] == 'file' else 0)
        self._tot_trans = getattr(self, '_tot_trans', 0) + (info['transitions'] if case['kind'] == 'file' else 0)
        return Outcome(fail=fail, nontrivial=nt, classes=classes, key=digest(text),
                       units=max(1, info['pgen_states']))

    def extra_evidence(self, tier):
        return {'shipped_grammar_files': [os.path.basename(f) for f in grammar_files()],
                'shipped_rules_checked': getattr(self, '_tot_rules', 0),
                'shipped_states_checked': getattr(self, '_tot_states', 0),
                'shipped_transitions_checked': getattr(self, '_tot_trans', 0),
                'shipped_part_exhaustive': True}

    def shrink_extra(self, case, fails):
        if case.get('kind') != 'random':
            return case
        c = dict(case)
        # drop rules from the end while references stay defined; replace subtrees by their children
        changed = True
        while changed:
            changed = False
            rules = c['rules']

            def subtrees(a, path=()):
                yield path, a
                if a[0] in ('seq', 'alt'):
                    for i, x in enumerate(a[1]):
                        yield from subtrees(x, path + (1, i))
                elif a[0] != 'sym':
                    yield from subtrees(a[1], path + (1,))

            def replace(a, path, new):
                if not path:
                    return new
                a = list(a)
                if len(path) >= 2 and isinstance(a[1], list) and a[0] in ('seq', 'alt'):
                    l = list(a[1])
                    l[path[1]] = replace(l[path[1]], path[2:], new)
                    a[1] = l
                else:
                    a[1] = replace(a[1], path[1:], new)
                return a
            for ri, r in enumerate(rules):
                for path, sub in list(subtrees(r)):
                    cands = []
                    if sub[0] in ('seq', 'alt'):
                        cands += sub[1]
                        if len(sub[1]) > 2:
                            cands.append([sub[0], sub[1][:-1]])
                    elif sub[0] != 'sym':
                        cands.append(sub[1])
                    else:
                        if sub[1] != 'NAME':
                            cands.append(['sym', 'NAME'])
                    for cand in cands:
                        nr = list(rules)
                        nr[ri] = replace(r, path, cand)
                        c2 = dict(c, rules=nr)
                        if fails(c2):
                            c = c2
                            changed = True
                            break
                    if changed:
                        break
                if changed:
                    break
        c2 = dict(c, layout=[0] * 8)
        if fails(c2):
            c = c2
        return c

    def sample_repr(self, case):
        if case['kind'] == 'file':
            return case
        return {'kind': 'random', 'grammar': render_grammar([from_json(r) for r in case['rules']], case['layout'])}


PROP = C08()
