"""C12 — no false syntax errors (DESIGN §2 C12)."""
import re

from hypothesis import strategies as st

from ..common import maybe_disturb, VERSIONS, crash_signature, digest, grammar, leaf_starting_at, nodes_preorder, short
from ..engine import Outcome, Prop
from ..gen import text as T
from ..gen import valid as V
from ..oracle import client

CONTEXT_TYPES = {'lambdef': 'in-lambda', 'fstring': 'in-fstring', 'sync_comp_for': 'in-comprehension', 'comp_for': 'in-comprehension',
                 'argument': 'in-argument', 'import_name': 'in-import', 'import_from': 'in-import', 'classdef': 'in-class',
                 'global_stmt': 'in-global', 'nonlocal_stmt': 'in-nonlocal', 'decorator': 'in-decorator', 'annassign': 'in-annotation',
                 'fstring_format_spec': 'in-format-spec', 'fstring_expr': 'in-fstring-expr', 'error_node': 'in-error-node'}


def context_tags(m, pos, message=''):
    """Root-cause context of a position: the nearest enclosing scope-like construct (lambda / comprehension / def /
    async def / class / module), whether it lies inside an f-string, and message-specific facts."""
    try:
        leaf = m.get_leaf_for_position(pos, include_prefixes=True)
    except ValueError:
        return ['?']
    if leaf is not None and tuple(leaf.end_pos) == tuple(pos) and tuple(leaf.start_pos) != tuple(pos) \
            and leaf.get_next_leaf() is not None:
        leaf = leaf.get_next_leaf()       # the lookup returns the leaf *ending* at pos; we want the one starting there
    tags = []
    scope = None
    n = leaf
    prev = None
    while n is not None:
        if n.type in ('fstring', 'fstring_expr', 'fstring_format_spec') and 'in-fstring' not in tags:
            tags.append('in-fstring')
        if n.type == 'fstring_format_spec' and 'in-format-spec' not in tags:
            tags.append('in-format-spec')
        if scope is None:
            if n.type == 'lambdef' and prev is not n.children[0]:
                scope = 'in-lambda'
            elif any(c.type in ('comp_for', 'sync_comp_for') for c in getattr(n, 'children', ())) and \
                    n.type not in ('comp_for', 'sync_comp_for'):
                scope = 'in-comprehension'
            elif n.type == 'funcdef':
                p = n.parent
                scope = 'in-async-def' if (p is not None and p.type in ('async_funcdef', 'async_stmt')) else 'in-def'
            elif n.type == 'classdef':
                scope = 'in-class'
        if n.type in ('import_name', 'import_from') and 'in-import' not in tags:
            tags.append('in-import')
        if n.type == 'argument' and prev is n.children[0] and len(n.children) > 1 and n.children[1] == '=' \
                and 'keyword-argument-name' not in tags:
            tags.append('keyword-argument-name')
        prev = n
        n = n.parent
    tags.append(scope or 'at-module-level')
    if 'from __future__ imports' in message or 'future feature' in message:
        first = m.children[0]
        if first.type == 'simple_stmt':
            first = first.children[0]
        tags.append('first-statement-is-' + first.type)
    return tags


def norm_message(msg):
    msg = re.sub(r"'[^']*'", "'_'", msg)
    msg = re.sub(r'\d+', 'N', msg)
    return msg


def first_error_pos(m):
    best = None
    for n in nodes_preorder(m):
        if n.type == 'error_leaf':
            p = n.start_pos
        elif n.type == 'error_node':
            p = n.start_pos
        else:
            continue
        if best is None or p < best[0]:
            best = (p, n)
    return best


def fstring_of(leaf):
    n = leaf
    top = None
    while n is not None:
        if n.type == 'fstring':
            top = n
        n = n.parent
    return top


def false_error_signature(m, node, code, vi):
    """Root cause of an error node/leaf in a program the reference accepts."""
    leaf = node.get_first_leaf() if node.type == 'error_node' else node
    fs = None
    if node.type == 'error_node':
        for c in node.children:
            if c.type == 'fstring_start' or c.type == 'fstring':
                fs = c
                break
    if fs is None:
        fs = fstring_of(leaf)
    if fs is not None or leaf.type in ('fstring_start', 'fstring_string', 'fstring_end'):
        # classify by the text of the enclosing logical line
        line = leaf.start_pos[0]
        text = '\n'.join(code.split('\n')[line - 1:line + 2])
        tags = ['in-fstring']
        if re.search(r'\\[{}]', text):
            tags.append('backslash-before-brace')
        if re.search(r':[^{}\'"]*\{[^{}]*[:!]', text) or re.search(r':[^{}\'"]*\{[^{}]*\}[^{}\'"]*\{', text):
            tags.append('nested-field-with-spec-or-several-fields-in-format-spec')
        return 'false-error-node:' + '+'.join(tags)
    nl = node.get_next_leaf() if node.type == 'error_node' else node
    tok = nl.value if nl is not None else ''
    kind = tok if (tok and not tok[0].isalnum() and len(tok) <= 3) else (nl.type if nl is not None else 'eof')
    return 'false-error-node:at-' + kind


def false_issue_signature(m, issue, vi):
    msg = issue.message
    tags = context_tags(m, issue.start_pos, msg)
    scope = [t for t in tags if t in ('in-lambda', 'in-comprehension', 'in-def', 'in-async-def', 'in-class', 'at-module-level')]
    key = norm_message(msg)
    if msg.startswith('SyntaxError: f-string'):
        dec = ['in-fstring'] + (['v>=3.12'] if vi >= (3, 12) else ['v<3.12'])
        if 'in-format-spec' in tags:
            dec.append('in-format-spec')
    elif 'from __future__ imports' in msg or 'future feature' in msg:
        dec = [t for t in tags if t.startswith('first-statement-is-')]
        leaf = leaf_starting_at(m, issue.start_pos)
        imp = leaf if leaf is None or leaf.type == 'import_from' else leaf.search_ancestor('import_from')
        if imp is not None and getattr(imp, 'level', 0) > 0:
            # `from .__future__ import x` is an ordinary relative import for CPython >= 3.13
            key = 'SyntaxError: __future__ statement rule applied'
            dec = ['relative-import-of-a-module-named-__future__']
    elif 'nonlocal' in msg or 'global' in msg:
        dec = []
        mm = re.search(r"'([^']*)'", msg)
        name = mm.group(1) if mm else None
        if name == '__class__':
            dec.append('name=__class__')
        if name and ('prior to' in msg or 'assigned to before' in msg):
            # classify the earlier occurrences of that name: are they references/assignments CPython counts?
            kinds = set()
            # only occurrences inside the scope the declaration belongs to (not the def's own name or outer code)
            here = leaf_starting_at(m, issue.start_pos)
            scope_node = here.search_ancestor('funcdef', 'classdef') if here is not None else None
            if scope_node is not None:
                l = scope_node.children[2].get_first_leaf()
            else:
                l = m.get_first_leaf()
            while l is not None and l.start_pos < issue.start_pos:
                if l.type == 'name' and l.value == name and l.parent.type not in ('global_stmt', 'nonlocal_stmt'):
                    p = l.parent
                    imp = l.search_ancestor('import_name', 'import_from')
                    nested = None
                    a = l.parent
                    while a is not None and a.type not in ('funcdef', 'classdef', 'file_input'):
                        if a.type == 'lambdef':
                            nested = 'lambda'
                            break
                        if any(c.type in ('comp_for', 'sync_comp_for') for c in getattr(a, 'children', ())):
                            nested = 'comprehension'
                            break
                        a = a.parent
                    if nested is not None:
                        # names of a nested lambda / comprehension scope are recorded as uses of the enclosing function
                        kinds.add('earlier-use-belongs-to-a-nested-lambda-or-comprehension-scope')
                    elif imp is not None:
                        # one root cause: every name inside an import statement (dotted tail, module part of a
                        # from-import, bound name/alias) is recorded as a use/assignment of that name
                        kinds.add('earlier-use-is-name-in-import-statement')
                    elif p.type == 'argument' and p.children[0] is l and len(p.children) > 1 and p.children[1] == '=':
                        kinds.add('earlier-use-is-keyword-argument-name')
                    elif p.type == 'trailer':
                        kinds.add('earlier-use-is-attribute')
                    else:
                        kinds.add('earlier-use-is-reference')
                l = l.get_next_leaf()
            dec += sorted(kinds)
            key = "SyntaxError: name '_' is used or assigned before global/nonlocal declaration"
        elif name and 'no binding' in msg and name != '__class__':
            # is the name bound in an enclosing function only by a def/class statement?
            leaf = leaf_starting_at(m, issue.start_pos)
            n = leaf
            found = False
            depth = 0
            while n is not None:
                if n.type == 'funcdef':
                    depth += 1
                    if depth >= 1:
                        for sub in nodes_preorder(n):
                            if sub.type in ('funcdef', 'classdef') and sub is not n and sub.name.value == name:
                                found = True
                        if n.name.value == name and depth >= 1 and n.parent is not None and n.search_ancestor('funcdef') is not None:
                            found = True
                n = n.parent
            dec += ['bound-by-def-or-class-statement-in-enclosing-function'] if found else scope
        else:
            dec += scope
    else:
        # the enclosing scope only matters for the placement rules (yield/await/return/async); elsewhere it is noise
        placement = any(w in msg for w in ('outside', 'async', 'await', 'yield', 'return', 'nonlocal', 'global'))
        dec = (scope if placement else []) + [t for t in tags if t in ('keyword-argument-name', 'in-import')]
        leaf0 = leaf_starting_at(m, issue.start_pos)
        if leaf0 is not None and leaf0.type == 'fstring_string':
            dec.append('on-fstring-literal-text')
        if 'starred' in msg or 'assign' in msg or 'delete' in msg:
            leaf = leaf_starting_at(m, issue.start_pos)
            anc = []
            n = leaf
            while n is not None and n.parent is not None and len(anc) < 3:
                n = n.parent
                anc.append(n.type)
            if "use starred expression here" in msg and anc[:2] == ['star_expr', 'atom'] and len(anc) > 2 \
                    and anc[2] in ('trailer', 'arglist', 'argument'):
                # one root cause wherever it occurs: `f((*a))` / `f((*a), b)` is accepted by CPython <= 3.8
                dec = ['parenthesised-star-as-call-argument']
            else:
                dec.append('parents=' + '/'.join(anc))
        if 'async generator' in msg:
            # is every yield of the function in its parameter defaults / annotations?
            leaf = leaf_starting_at(m, issue.start_pos)
            n = leaf
            while n is not None and n.type != 'funcdef':
                n = n.parent
            if n is not None:
                ys = [y.start_pos for y in n.iter_yield_exprs()]
                if ys and all(y < n.children[-1].start_pos for y in ys):
                    dec.append('yield-only-in-parameter-defaults-or-annotations')
    return 'false-issue:%s:%s' % (key, '+'.join(dec) or 'plain')


def _in_from_module_part(leaf):
    n = leaf
    while n is not None and n.type != 'import_from':
        n = n.parent
    if n is None:
        return False
    for c in n.children:
        if c == 'import':
            return leaf.start_pos < c.start_pos
    return False


class C12(Prop):
    id = 'C12'
    rule = ('Generated: statement-aligned windows of real code (repo + stdlib), token-level mutations, lexically rich hand-written '
            'programs x versions 3.6-3.14; each candidate is validated by compile() in CPython V (3.14 by 3.13) and, for sense (a), also '
            'in CPython 3.8. Oracle: (a) ok_V and ok_38 => no error node/leaf and no issue; (b) ok_V and parso parses without error '
            'nodes => iter_errors empty. Programs the reference rejects are counted as excluded. Failures are bucketed by root-cause '
            'signature (issue message + syntactic context of the issue position; for false error nodes the context of the first error). '
            'Non-trivial: accepted program with >=5 statements or an f-string, decorator, global/nonlocal, yield/await, starred '
            'expression, walrus, lambda, comprehension or annotation. Distinct by (text, version).')
    assumptions = ['CPython compile() is the reference for validity', 'listed findings F-C12-* are matched by signature']
    budgets = {'quick': 16000, 'thorough': 1200000}
    min_nontrivial_fraction = 0.05

    def teardown_shard(self):
        client.close_all()

    def strategy(self, tier):
        kinds = ('repo', 'stdlib3.12') if tier == 'quick' else ('repo', 'stdlib3.12', 'stdlib3.8')
        return V.versioned_candidates(kinds)

    def enumerate(self, tier, seed):
        for vi, v in enumerate(VERSIONS):
            mm = client.JUDGE[v]
            files = T.corpus_files('stdlib' + mm)
            if not files:
                continue
            step = 120 if tier == 'quick' else 2
            for f in files[(seed + vi + 1) % step::step]:
                code = T.read_text(f)
                if len(code) < 200000:
                    yield {'code': code, 'version': v}

    def check(self, case):
        code, v = case['code'], case['version']
        o = client.oracle(client.JUDGE[v])
        if o is None:
            return Outcome(excluded='interpreter %s not installed' % client.JUDGE[v])
        if '\x00' in code:
            return Outcome(excluded='NUL byte')
        r = o.ask(op='compile', src=code)
        if not r.get('ok'):
            return Outcome(excluded='reference rejects (compile)')
        if client.JUDGE[v] in ('3.6', '3.7'):
            # CPython <= 3.7 does not compile statically dead blocks (`while None:`, `if 0:`), so its acceptance is no
            # evidence for code inside them; 3.8 (which checks dead blocks) must accept the program too.
            o38 = client.oracle('3.8')
            if o38 is None or not o38.ask(op='compile', src=code).get('ok'):
                return Outcome(excluded='CPython <=3.7 accepts but 3.8 rejects (dead-code elimination makes <=3.7 unreliable)')
        g = grammar(v)
        maybe_disturb(g, code, v)      # process history: an unfinished earlier call must not matter
        try:
            m = g.parse(code)
            err = first_error_pos(m)
            issues = list(g.iter_errors(m))
        except RecursionError:
            return Outcome(excluded='recursion-limit')
        except Exception as e:
            return Outcome(fail=crash_signature(e), nontrivial=True, key=digest(code, v))
        fail = None
        if err is not None:
            # sense (a): only syntax common with the last LL(1) CPython
            ok38 = True
            if client.JUDGE[v] != '3.8':
                o38 = client.oracle('3.8')
                if o38 is None:
                    return Outcome(excluded='interpreter 3.8 not installed (sense a)')
                ok38 = o38.ask(op='compile', src=code).get('ok')
            if ok38:
                pos, node = err
                fail = (false_error_signature(m, node, code, g.version_info),
                        'CPython %s and 3.8 compile it; parso %s marks %s at %r: %s'
                        % (client.JUDGE[v], v, node.type, pos, short(code, 200)))
            else:
                return Outcome(excluded='parso has error nodes and CPython 3.8 rejects (outside sense a)')
        elif issues:
            i = issues[0]
            fail = (false_issue_signature(m, i, g.version_info),
                    'CPython %s compiles it; parso %s reports %r at %r: %s' % (client.JUDGE[v], v, i.message, i.start_pos, short(code, 200)))
        if fail is not None and client.JUDGE[v] in ('3.6', '3.7'):
            # ... and for rules that 3.8 dropped ('continue' in 'finally') the 3.8 cross-check cannot help: ask the same
            # interpreter again with every constant `if`/`while` test replaced by a name, so that nothing is dead
            if not o.ask(op='compile_live', src=code).get('ok'):
                return Outcome(excluded='CPython <=3.7 accepts only because the offending code is statically dead')
        classes = ['py' + client.JUDGE[v]]
        feats = []
        for name, pat in (('fstring', r'''(?i)\b[rb]?f[rb]?['"]'''), ('decorator', r'(?m)^\s*@'), ('global', r'\b(?:global|nonlocal)\b'),
                          ('yield/await', r'\b(?:yield|await)\b'), ('star', r'[\(\[,=]\s*\*'), ('walrus', r':='), ('lambda', r'\blambda\b'),
                          ('comprehension', r'\bfor\b.*\bin\b.*[\]\)\}]'), ('annotation', r'->|\w\s*:\s*\w+\s*=')):
            if re.search(pat, code):
                feats.append(name)
        nstmts = code.count('\n')
        return Outcome(fail=fail, nontrivial=bool(feats) or nstmts >= 5, classes=classes + feats, key=digest(code, v))

    def sample_repr(self, case):
        return {'code': short(case['code'], 200), 'version': case['version']}


PROP = C12()
