"""C18 — parsing is pure, reentrant, thread-safe (DESIGN §2 C18)."""
import enum
import hashlib
import json
import os
import re
import subprocess
import sys
import types

from hypothesis import strategies as st

import parso
import parso.grammar

from ..calls import KINDS, run_call
from ..common import REPO, VERIF, VERSIONS, digest, short
from ..engine import Outcome, Prop
from ..gen import text as T
from ..sched import Sched

PARSO_ROOT = os.path.join(os.path.abspath(REPO), 'parso') + os.sep


# ---- deep structural fingerprint ---------------------------------------------------------------

class _FP:
    """Streams a canonical description of an object graph into ``out`` (list of str).  The memo is shared by all
    sections of one fingerprint, so an object is described once, in the first section that reaches it."""

    def __init__(self):
        self.memo = {}
        self.out = []

    def visit(self, o, depth=0):
        out = self.out
        if o is None or o is True or o is False:
            out.append(repr(o))
            return
        t = type(o)
        if t is str:
            out.append('s' + o)
            return
        if t is int or t is float:
            out.append('n' + repr(o))
            return
        if t is bytes or t is complex:
            out.append(repr(o))
            return
        if isinstance(o, enum.Enum):
            out.append('enum:%s.%s' % (t.__name__, o.name))
            return
        oid = id(o)
        m = self.memo.get(oid)
        if m is not None:
            out.append('ref%d' % m)                # graph shape by identity
            return
        self.memo[oid] = len(self.memo)
        if depth > 400:
            out.append('deep')
            return
        if t is dict:
            # fingerprints are only compared within one process: iteration order of an unchanged dict/set is stable
            out.append('dict%d' % len(o))
            for k, v in o.items():
                self.visit(k, depth + 1)
                self.visit(v, depth + 1)
        elif t is list or t is tuple or (isinstance(o, tuple) and not hasattr(o, '__dict__')):
            out.append('%s%d' % (t.__name__, len(o)))
            for x in o:
                self.visit(x, depth + 1)
        elif isinstance(o, (set, frozenset)):
            out.append('set%d' % len(o))
            for x in o:
                self.visit(x, depth + 1)
        elif isinstance(o, re.Pattern):
            out.append('re:%s:%d' % (o.pattern, o.flags))
        elif callable(getattr(o, 'cache_info', None)):
            # a memoising wrapper (functools.lru_cache and friends): its fill level is shared state
            try:
                out.append('memo-wrapper:%s:%r' % (getattr(o, '__qualname__', ''), o.cache_info().currsize))
            except Exception:
                out.append('memo-wrapper')
        elif isinstance(o, type):
            out.append('class:%s.%s' % (o.__module__, o.__qualname__))
            if (o.__module__ or '').startswith('parso'):
                for k in sorted(vars(o)):
                    v = vars(o)[k]
                    if callable(getattr(v, 'cache_info', None)) or callable(getattr(getattr(v, '__func__', None), 'cache_info', None)):
                        out.append('cattr:' + k)
                        self.visit(getattr(v, '__func__', v), depth + 1)
                        continue
                    if k.startswith('__') or callable(v) or isinstance(v, (property, staticmethod, classmethod, types.MemberDescriptorType)):
                        continue
                    out.append('cattr:' + k)
                    self.visit(v, depth + 1)
        elif isinstance(o, (types.FunctionType, types.BuiltinFunctionType, types.MethodType)):
            out.append('func:%s.%s' % (getattr(o, '__module__', ''), getattr(o, '__qualname__', repr(o))))
        elif isinstance(o, types.ModuleType):
            out.append('module:' + o.__name__)
        else:
            out.append('obj:%s.%s' % (t.__module__, t.__qualname__))
            if (t.__module__ or '').startswith('parso'):
                d = getattr(o, '__dict__', None)
                if d is not None:
                    for k in sorted(d):
                        out.append('attr:' + k)
                        self.visit(d[k], depth + 1)
                for cls in t.__mro__:
                    for sl in getattr(cls, '__slots__', ()) or ():
                        if sl == 'parent':
                            out.append('parent:%s' % (getattr(o, sl, None) is not None))
                            continue
                        if hasattr(o, sl):
                            out.append('slot:' + sl)
                            self.visit(getattr(o, sl), depth + 1)
            elif t.__module__ in ('pathlib', 'builtins'):
                out.append(repr(o)[:80])


def fingerprint(versions):
    """{section: digest} of the shared state the statement names (one walk, memo shared across sections)."""
    old = sys.getrecursionlimit()
    sys.setrecursionlimit(max(old, 20000))
    try:
        out = {}
        fp = _FP()

        def section(name, obj):
            fp.out = []
            fp.visit(obj)
            out[name] = hashlib.blake2b('\x00'.join(fp.out).encode('utf-8', 'backslashreplace'), digest_size=10).hexdigest()
        lg = parso.grammar._loaded_grammars
        vs = set()
        for v in versions:
            mm = v.split('.')
            vs.add('grammar%s%s.txt' % (mm[0], mm[1]))
        # objects of grammars that this history does not use are marked as visited (not described): other cases of the
        # same process may load them lazily at any time
        for path, g in sorted(lg.items()):
            if os.path.basename(path) not in vs:
                fp.memo[id(g)] = len(fp.memo)
        for path, g in sorted(lg.items()):
            if os.path.basename(path) in vs:
                section('loaded_grammar[%s]' % os.path.basename(path), g)
        fp.memo[id(lg)] = len(fp.memo)
        for name, mod in sorted(sys.modules.items()):
            if not (name == 'parso' or name.startswith('parso.')) or mod is None:
                continue
            for k, v in sorted(vars(mod).items()):
                if k.startswith('__') or isinstance(v, (types.ModuleType, types.FunctionType, types.BuiltinFunctionType)):
                    continue      # (a memoising wrapper is not a FunctionType and gets its section)
                if isinstance(v, type) and v.__module__ != name:
                    continue
                section('%s.%s' % (name, k), v)
        return out
    finally:
        sys.setrecursionlimit(old)


_WARM = set()
_WARM_TEXTS = ['import os\n\ndef f(a, b=1, *c, **d):\n    "doc"\n    return [x for x in a if x] + [f"{b!r:>{a}}", b"\\x00", r"\\d", 1.5e3j]\n\nclass A(B):\n    x: int = 1\n',
               'def g(:\n  x = (1,\n    y\nif x\n\t else:\n  "unterminated\n', 'f(x for x in y, 1)\nnonlocal q\n*a = 1\nf"{!}"\n\x0c# c\n\\\n']


def warm_up(versions):
    """Every kind of call once per version on fixed texts that no generator produces."""
    for v in versions:
        key = (v, id(parso.load_grammar(version=v)))       # a case that emptied the grammar registry forces a new warm-up
        if key in _WARM:
            continue
        for t in _WARM_TEXTS:
            run_call(['all', v, t])
        _WARM.add(key)


def fp_diff(a, b):
    return sorted(k for k in set(a) | set(b) if a.get(k) != b.get(k))


# ---- reference server ------------------------------------------------------------------------------

_server = None


_server_rev = None


def reference(calls, nofork=False, reverse=False):
    """Results of the calls in a pristine process; ``reverse``: the reference that loaded the grammars in the opposite order."""
    global _server, _server_rev
    srv = _server_rev if reverse else _server
    if srv is None or srv.poll() is not None:
        env = dict(os.environ, PYTHONHASHSEED='0', PYTHONDONTWRITEBYTECODE='1', VERIF_REPO=REPO,
                   VERIF_REF_ORDER='reverse' if reverse else 'canonical')
        srv = subprocess.Popen([sys.executable, os.path.join(VERIF, 'vf', 'refserver.py')], stdin=subprocess.PIPE,
                               stdout=subprocess.PIPE, env=env)
        if reverse:
            _server_rev = srv
        else:
            _server = srv
    srv.stdin.write((json.dumps({'nofork': calls} if nofork else calls) + '\n').encode('utf-8'))
    srv.stdin.flush()
    line = srv.stdout.readline()
    if not line:
        raise RuntimeError('reference server died')
    return json.loads(line.decode('utf-8'))


def close_server():
    global _server, _server_rev
    for srv in (_server, _server_rev):
        if srv is not None:
            try:
                srv.stdin.close()
                srv.wait(timeout=5)
            except Exception:
                srv.kill()
    _server = _server_rev = None


def norm(x):
    return json.loads(json.dumps(x))


class C18(Prop):
    id = 'C18'
    rule = ('Generated: histories of 2-6 calls drawn from {load_grammar, parse, strict parse, iter_errors, PEP 8 issues, tokenize, refactor} '
            'x 2-3 versions x adversarial/mutated texts; optionally the loaded-grammar registry is emptied first so grammars are loaded '
            'in the drawn order. Oracles: (1) every result equals the result of the same call in a pristine process (reference server '
            'that fork()s per call); (2) after a warm-up pass a deep structural fingerprint (types, scalars, container contents, graph '
            'shape by identity) of the loaded grammars incl. generated tables, token-pattern cache, rule registries, parser_cache and '
            'every data global / class attribute of the parso package is unchanged by a second pass, whose results equal the first; '
            '(2b) after a warm-up with fixed *other* texts (first-use memoisation of tables, token patterns) the first pass of the drawn calls '
            'already leaves that fingerprint unchanged (memoising wrappers show their fill level); (3) the same calls run in 2-6 threads through the shared grammar objects under the harness-owned line-granular baton '
            'scheduler (schedule = drawn run lengths / next-thread choices) give the sequential results. Enumerated every run (first-use grid): a fresh interpreter whose very first library call is interrupted at line n, n on a grid that is dense over the first 6 000 lines (one-time construction of tables and patterns) and geometric beyond, followed by a fixed probe battery (every string prefix, f-strings, numbers, operators, blocks, errors) whose results must equal the warm ones. Three of four cases are light sibling histories: 2-3 calls where a later call gets an earlier call\'s text or a one-token '
            'variant of it (string prefix flipped, one name/number replaced), usually the same kind of call, compared with the pristine process only. '
            'Non-trivial: schedule with >=3 context switches while >=2 threads are inside parse/walk/tokenize; light case: two calls of one kind with different texts. Distinct by (calls, schedule).')
    assumptions = ['interleavings are sampled at source-line granularity, never enumerated; races inside one line are invisible to the baton scheduler']
    budgets = {'quick': 2400, 'thorough': 80000}
    time_caps = {'quick': 150, 'thorough': 1500}
    shrink_fields = ('calls', 'schedule')
    min_nontrivial_fraction = 0.2

    def teardown_shard(self):
        close_server()

    def strategy(self, tier):
        text = st.one_of(T.soup(10), T.soup(10, {'str': 5, 'num': 3}), T.mutated(T.corpus_window(('repo',), max_lines=8)),
                         T.corpus_window(('repo',), max_lines=10), T.nested(8).map(lambda t: t[0]), T.list_context())
        from ..gen import valid as V
        # literal-rich and mostly well-formed, for light cases: every string prefix x quote x escape shape, numbers, names
        lit_text = st.one_of(V.exprs(2).map(lambda e: 'x = ' + e + '\n'), V.exprs(1).map(lambda e: e + '\n'), V.stmts(1),
                             T.soup(10, {'str': 6, 'num': 4, 'name': 4}), T.list_context())
        vers = st.lists(T.version(), min_size=1, max_size=3, unique=True)

        @st.composite
        def case(draw):
            vs = draw(vers)
            # three of four cases are *light*: 2-3 sibling calls, compared with the pristine process only (no second pass, no
            # threads) - cheap enough to run thousands of them
            light = draw(st.integers(0, 3)) != 0
            n = draw(st.integers(2, 3)) if light else draw(st.integers(2, 6))
            kinds = st.just('all') if light else st.sampled_from(KINDS)      # 'all': every kind of call on the text
            txt = st.one_of(lit_text, lit_text, text) if light else text
            calls = [[draw(kinds), draw(st.sampled_from(vs)), draw(txt)] for _ in range(n)]
            if light and draw(st.integers(0, 3)) == 0:
                # the same text through the two grammar versions around a version guard, in either order (grammars with identical
                # grammar files - 3.10/3.11, 3.13/3.14 - differ in nothing but such guards)
                e = draw(T.version_sensitive())
                pair = list(e['versions']) if draw(st.booleans()) else list(reversed(e['versions']))
                return {'calls': [['all', v_, e['text'] + '\n'] for v_ in pair + pair[:draw(st.integers(0, 1))]], 'light': True,
                        'pristine': True, 'fresh_grammars': draw(st.integers(0, 2)) == 0, 'stress': False, 'cold': None, 'schedule': [1],
                        'both_refs': True}
            # sibling calls: a later call gets (a small variant of) an earlier call's text - what a process-wide memo keyed
            # too coarsely (by text but not version / kind of literal / kind of call) needs in order to answer wrongly
            for i in range(1, n):
                how = draw(st.integers(3, 5)) if light else draw(st.integers(0, 5))
                if how <= 2:
                    continue
                j = draw(st.integers(0, i - 1))
                src = calls[j][2]
                if draw(st.integers(0, 2)) != 0:
                    calls[i][0] = calls[j][0]         # usually the same kind of call: that is what shares a memo
                if how == 4:
                    ms = list(re.finditer(r'''(?i)(?<![A-Za-z0-9_'"\\])(?:rb|br|rf|fr|[bruf])?(?=['"])''', src))
                    if ms:
                        m_ = ms[draw(st.integers(0, len(ms) - 1))]
                        src = src[:m_.start()] + draw(st.sampled_from(['', 'b', 'r', 'u', 'f', 'rb', 'B', 'R'])) + src[m_.end():]
                elif how == 5:
                    ms = list(re.finditer(r'\b\d+\b|\b[A-Za-z_]\w*\b', src))
                    if ms:
                        m_ = ms[draw(st.integers(0, len(ms) - 1))]
                        src = src[:m_.start()] + draw(st.sampled_from(['0', '1', 'x', 'None', 'print', 'async', 'match'])) + src[m_.end():]
                calls[i][2] = src
            if light:
                return {'calls': calls, 'light': True, 'pristine': True, 'fresh_grammars': False, 'stress': False, 'cold': None,
                        'schedule': [1]}
            return {'calls': calls, 'fresh_grammars': draw(st.integers(0, 5)) == 0, 'pristine': draw(st.integers(0, 2)) == 0,
                    'stress': tier == 'thorough' and draw(st.integers(0, 3)) == 0,
                    'cold': draw(st.sampled_from([None] * 6 + ['sequential', 'threaded', 'threaded', 'aborted-first'])),
                    'schedule': draw(st.lists(st.integers(1, 120), min_size=8, max_size=60))}
        return case()

    # probe battery for the first-use grid: every string prefix x quote, f-strings, numbers, operators, blocks, errors
    BATTERY = ("x = r'a' + R\"b\" + u'c' + b'd' + rb'e' + Br'f' + f'{g}' + F\"{h!r:>{w}}\" + rf'{i}' + fr\"\"\"{j}\"\"\"\n"
               "def f(a, /, b=0x1F, *c, d: int = 1_0, **e) -> 'r':\n    if a <= b != c:\n        return [y := 1.5e3j, *c, {**e}]\n"
               "    async def g():\n        await a; yield\n  bad indent\nclass C(B, metaclass=M): x @= 1 ; y = ... if a else not b\n"
               "print(U'x', bR'y', Rb\"z\", 0o17, 0b1, '\\N{BULLET}', f'{a=}', \"unterminated\n")

    def enumerate(self, tier, seed):
        # First-use grid (deterministic): a fresh interpreter whose very first library call is interrupted at line n, for a
        # grid of n that is dense over the first thousands of lines (where tables and patterns are built once); the caller goes
        # on, and every later result must equal the warm one.
        step = 64 if tier == 'quick' else 8
        grid = list(range(20 + seed % step, 6000, step)) + [int(6000 * 1.35 ** k) for k in range(1, 14)]
        for i, n in enumerate(grid):
            vs = ['3.8', '3.12'] if i % 2 else ['3.12', '3.6']
            calls = [[k, v, self.BATTERY] for v in vs for k in (('parse', 'errors') if v == vs[0] else ('tokenize', 'pep8'))]
            yield {'calls': calls, 'grid': n}

    def check(self, case):
        calls = case['calls']
        if case.get('grid'):
            warm = [norm(run_call(c)) for c in calls]
            r = subprocess.run([sys.executable, '-m', 'vf.coldrun'], cwd=VERIF, capture_output=True, timeout=600,
                               input=json.dumps({'calls': calls, 'schedule': [1], 'threaded': False, 'abort_first': case['grid']}).encode('utf-8'),
                               env=dict(os.environ, VERIF_REPO=REPO, PYTHONHASHSEED='0'))
            if r.returncode != 0 or not r.stdout:
                raise RuntimeError('cold-start runner failed: %s' % r.stderr.decode('utf-8', 'replace')[-500:])
            cold = json.loads(r.stdout.decode('utf-8'))
            fail = None
            for i, (a, b) in enumerate(zip(cold, warm)):
                if norm(a) != b:
                    fail = ('cold-start-result-differs:aborted-first', 'first call interrupted at line %d, then call %d %s(%s): cold %s vs warm %s'
                            % (case['grid'], i, calls[i][0], calls[i][1], short(a, 150), short(b, 150)))
                    break
            return Outcome(fail=fail, nontrivial=True, classes=['first-use-grid'], key=digest(calls, case['grid']), units=len(calls))
        versions = sorted({c[1] for c in calls})
        if case.get('fresh_grammars'):
            parso.grammar._loaded_grammars.clear()
        fail = None
        classes = []
        # (0) first-use memoisation (grammar tables, token patterns, rule instantiation) is triggered with *other* texts,
        # so that the first pass below may not change shared state at all - a memo keyed by anything text-dependent shows
        f0 = None
        if not case.get('light') and not case.get('fresh_grammars'):
            warm_up(versions)
            f0 = fingerprint(versions)
        # (1) sequential pass 1 vs pristine process
        r1 = [norm(run_call(c)) for c in calls]
        if any(isinstance(r, list) and r[:2] == ['EXC', 'RecursionError'] for r in r1):
            return Outcome(excluded='recursion-limit')
        if case.get('light'):
            # only the last call of a light history is judged: first against a process that has not seen the earlier calls
            # (cheap, no fork), and a difference is confirmed against the forking pristine server
            # (half of the cases ask the reference that loaded the grammars in the opposite order: a result that depends on the
            # loading order then differs from one of the two references whatever the order in this process was)
            rev = digest(calls)[0] % 2 == 1
            if case.get('both_refs'):
                # version-guard cases: every call against both references
                classes.append('version-guard-text-through-both-neighbouring-versions')
                ref = r1
                for rv in (False, True):
                    cheap = [norm(x) for x in reference(calls, nofork=True, reverse=rv)]
                    if cheap != r1:
                        ref = [norm(x) for x in reference(calls, reverse=rv)]
                        if ref != r1:
                            break
            else:
                last = norm(reference(calls[-1:], nofork=True, reverse=rev)[0])
                ref = r1 if last == r1[-1] else [norm(x) for x in reference(calls, reverse=rev)]
            if rev:
                classes.append('reference-with-reverse-loading-order')
        else:
            ref = reference(calls) if case.get('pristine', True) else r1
        if case.get('pristine', True):
            classes.append('compared-with-pristine-process')
        for i, (a, b) in enumerate(zip(r1, ref)):
            if a != b:
                fail = ('result-differs-from-pristine-process', 'call %d %s(%s): %s vs pristine %s'
                        % (i, calls[i][0], calls[i][1], short(a, 150), short(b, 150)))
                break
        if case.get('light'):
            classes.append('light-sibling-history')
            sib = any(calls[i][2] != calls[j][2] and calls[i][0] == calls[j][0] for i in range(len(calls)) for j in range(i))
            return Outcome(fail=fail, nontrivial=sib, classes=classes, key=digest(calls), units=len(calls))
        # (2) purity: second pass leaves the fingerprint unchanged and repeats the results
        if fail is None:
            f1 = fingerprint(versions)
            if f0 is not None:
                d = fp_diff(f0, f1)
                if d:
                    fail = ('shared-state-changed-by-first-pass:' + d[0], 'warmed up with other texts, then these calls changed: %r' % d[:6])
                classes.append('first-pass-purity')
        if fail is None:
            for i, c in enumerate(calls):
                r = norm(run_call(c))
                if r != r1[i]:
                    fail = ('result-changes-on-repetition', 'call %d %s(%s): %s then %s' % (i, c[0], c[1], short(r1[i], 120), short(r, 120)))
                    break
            if fail is None:
                f2 = fingerprint(versions)
                d = fp_diff(f1, f2)
                if d:
                    fail = ('shared-state-changed:' + d[0], 'sections that changed during a repeated pass: %r' % d[:6])
        # (3) threads under the baton scheduler
        sched = None
        if fail is None and len(calls) >= 2:
            sched = Sched(len(calls), case['schedule'], PARSO_ROOT)
            outs = sched.run([(lambda c=c: run_call(c)) for c in calls])
            outs = [norm(o) for o in outs]
            for i, (a, b) in enumerate(zip(outs, r1)):
                if a != b:
                    fail = ('threaded-result-differs', 'thread %d %s(%s): %s vs sequential %s (switches=%d)'
                            % (i, calls[i][0], calls[i][1], short(a, 150), short(b, 150), sched.switches))
                    break
            if fail is None:
                f3 = fingerprint(versions)
                d = fp_diff(f1, f3)
                if d:
                    fail = ('shared-state-changed-by-threads:' + d[0], 'sections: %r' % d[:6])
        # (4) secondary, non-deterministic stress tier: real preemption at a tiny switch interval (can only add failures)
        if fail is None and case.get('stress') and len(calls) >= 2:
            import threading
            classes.append('preemptive-stress')
            old_iv = sys.getswitchinterval()
            sys.setswitchinterval(1e-6)
            outs = [None] * len(calls)

            def work(i):
                res = None
                for _ in range(3):
                    r = norm(run_call(calls[i]))
                    if res is not None and r != res:
                        res = ['UNSTABLE', res, r]
                        break
                    res = r
                outs[i] = res
            try:
                ts = [threading.Thread(target=work, args=(i,)) for i in range(len(calls))]
                for t in ts:
                    t.start()
                for t in ts:
                    t.join(120)
            finally:
                sys.setswitchinterval(old_iv)
            for i, (a, b) in enumerate(zip(outs, r1)):
                if a != b:
                    fail = ('preemptive-threads-result-differs', 'thread %d %s(%s): %s vs sequential %s'
                            % (i, calls[i][0], calls[i][1], short(a, 150), short(b, 150)))
                    break
        # (5) cold start: the same calls as the very first parso actions of a fresh interpreter (sequentially, or in
        # threads under the scheduler) - first-use memoisation must be atomic and independent of the order of first uses
        if fail is None and case.get('cold'):
            classes.append('cold-start:' + case['cold'])
            try:
                r = subprocess.run([sys.executable, '-m', 'vf.coldrun'], cwd=VERIF, capture_output=True, timeout=300,
                                   input=json.dumps({'calls': calls, 'schedule': case['schedule'],
                                                     'threaded': case['cold'] == 'threaded',
                                                     # (log-uniform over 100 .. 5 000 lines in two of three cases, else over 10 .. 250 000: one-time initialisation is a thin slice early in the first call)
                                                     'abort_first': ((int(10 ** (2 + (case['schedule'][0] % 18) / 10.0)) if case['schedule'][2] % 3 else
                                                                      int(10 ** (1 + (case['schedule'][0] % 45) / 10.0))) + case['schedule'][1]
                                                                     if case['cold'] == 'aborted-first' else None)}).encode('utf-8'),
                                   env=dict(os.environ, VERIF_REPO=REPO, PYTHONHASHSEED='0'))
                cold = json.loads(r.stdout.decode('utf-8')) if r.returncode == 0 and r.stdout else None
            except (subprocess.TimeoutExpired, ValueError):
                cold = None
            if cold is None:
                raise RuntimeError('cold-start runner failed: %s' % r.stderr.decode('utf-8', 'replace')[-500:])
            for i, (a, b) in enumerate(zip(cold, r1)):
                if norm(a) != b:
                    fail = ('cold-start-result-differs:' + case['cold'], 'call %d %s(%s): cold %s vs warm %s'
                            % (i, calls[i][0], calls[i][1], short(a, 150), short(b, 150)))
                    break
        nt = sched is not None and sched.contended_switches >= 3
        if sched is not None:
            classes.append('switches>=10' if sched.switches >= 10 else 'switches<10')
        if case.get('fresh_grammars'):
            classes.append('grammar-load-order-drawn')
        classes += sorted({c[0] for c in calls})
        return Outcome(fail=fail, nontrivial=nt, classes=classes, key=digest(calls, case['schedule']), units=len(calls) * 3)

    def shrink_extra(self, case, fails):
        c = dict(case)
        if c.get('fresh_grammars'):
            c2 = dict(c, fresh_grammars=False)
            if fails(c2):
                c = c2
        # shrink the texts of the calls
        return c

    def sample_repr(self, case):
        if case.get('grid'):
            return {'calls': [[c[0], c[1], short(c[2], 80)] for c in case['calls']], 'first_call_interrupted_at_line': case['grid']}
        return {'calls': [[c[0], c[1], short(c[2], 80)] for c in case['calls']], 'schedule': case['schedule'][:12],
                'fresh_grammars': case.get('fresh_grammars')}


PROP = C18()
