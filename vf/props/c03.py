"""C03 — positions are true (DESIGN §2 C03)."""
from hypothesis import strategies as st

from ..common import maybe_disturb, BOM, PROVENANCES, advance, crash_signature, digest, grammar, is_zero_width, leaves, short, tree_via
from ..engine import Outcome, Prop
from ..gen import text as T


def check_positions(m, code):
    """Reference walker over prefix+value of the leaves.  Returns (fail, info)."""
    info = {'multiline_token': False, 'zero_width': False}
    pos = (1, 0)
    first = True
    pending = []      # zero-width indentation error leaves waiting for the next real leaf
    prev_end = (1, 0)
    L = leaves(m)
    for leaf in L:
        if is_zero_width(leaf):
            info['zero_width'] = True
            if leaf.value != '' or leaf.prefix != '':
                return ('zero-width-leaf-has-text', '%r value=%r prefix=%r' % (leaf, leaf.value, leaf.prefix)), info
            if leaf.start_pos != leaf.end_pos:
                return ('zero-width-leaf-extent', '%r start %r end %r' % (leaf, leaf.start_pos, leaf.end_pos)), info
            # no claim is made about get_start_pos_of_prefix() of a zero-width leaf itself (it has no prefix)
            if leaf.start_pos < prev_end:
                return ('leaf-order', '%r starts at %r before the previous leaf end %r' % (leaf, leaf.start_pos, prev_end)), info
            pending.append(leaf)
            continue
        prefix = leaf.prefix
        if first and prefix.startswith(BOM):
            prefix = prefix[1:]        # a leading BOM has zero width
        first = False
        sp = leaf.get_start_pos_of_prefix()
        if sp != pos:
            return ('prefix-start', '%r: get_start_pos_of_prefix()=%r, previous leaf ended at %r' % (leaf, sp, pos)), info
        start = advance(pos, prefix)
        if leaf.start_pos != start:
            return ('leaf-start', '%r: start_pos=%r, true location %r' % (leaf, leaf.start_pos, start)), info
        for z in pending:
            if z.start_pos != start:
                return ('zero-width-leaf-position', '%r at %r, next real leaf value starts at %r' % (z, z.start_pos, start)), info
        pending = []
        end = advance(start, leaf.value)
        if leaf.end_pos != end:
            return ('leaf-end', '%r: end_pos=%r, true end %r' % (leaf, leaf.end_pos, end)), info
        if end[0] != start[0]:
            info['multiline_token'] = True
        if leaf.start_pos < prev_end:
            return ('leaf-order', '%r overlaps the previous leaf' % leaf), info
        prev_end = end
        pos = end
    if pending:
        return ('zero-width-leaf-trailing', 'zero-width leaf after the last real leaf'), info
    # nodes
    stack = [m]
    while stack:
        n = stack.pop()
        ch = getattr(n, 'children', None)
        if ch is None:
            continue
        fl, ll = n, n
        while getattr(fl, 'children', None) is not None:
            fl = fl.children[0]
        while getattr(ll, 'children', None) is not None:
            ll = ll.children[-1]
        if n.start_pos != fl.start_pos or n.end_pos != ll.end_pos:
            return ('node-extent', '%s: %r..%r but leaves %r..%r' % (n.type, n.start_pos, n.end_pos, fl.start_pos, ll.end_pos)), info
        if n.get_start_pos_of_prefix() != fl.get_start_pos_of_prefix():
            return ('node-prefix-start', '%s' % n.type), info
        stack.extend(ch)
    total = advance((1, 0), code[1:] if code.startswith(BOM) else code)
    if m.end_pos != total:
        return ('module-end', 'module.end_pos=%r, end of input %r' % (m.end_pos, total)), info
    nbreaks = 0
    i = 0
    while i < len(code):
        if code[i] == '\r':
            if code[i + 1:i + 2] == '\n':
                i += 1
            nbreaks += 1
        elif code[i] == '\n':
            nbreaks += 1
        i += 1
    if m.end_pos[0] != nbreaks + 1:
        return ('module-line-count', 'module ends on line %d, input has %d line breaks' % (m.end_pos[0], nbreaks)), info
    return None, info


class C03(Prop):
    id = 'C03'
    rule = ('Generated: adversarial text (extra weight on string openers/continuations, CR/CRLF/mixed newlines, '
            'non-Python separators, BOM, indentation errors) x 9 versions. Oracle: independent character walker '
            '(only \\n, \\r\\n, \\r break lines; leading BOM zero width) reproduces start_pos/end_pos of every leaf, '
            'get_start_pos_of_prefix of every leaf, node extents = first/last leaf, module.end_pos = end of input and '
            'line count = breaks+1; zero-width INDENT/DEDENT/ERROR_DEDENT error leaves must be empty and sit at the start '
            'of the next real leaf value. Non-trivial: a token spans >=2 lines, or text has CR/BOM/non-Python separator, '
            'or a zero-width error leaf exists. Tree provenance (3 of 7 cases): the tree of the text is reached by an in-place diff_cache update from a '
            'line-edited earlier text whose positions were read first, through pickle, or is read twice - positions must be true on every tree the library hands out.')
    assumptions = ['reading of zero-width indentation leaves fixed in DESIGN §2 C03 / §4.1']
    fuzz = True       # thorough/quick runs add an atheris sub-tier with this check as the in-target oracle
    budgets = {'quick': 24000, 'thorough': 640000}

    def strategy(self, tier):
        kinds = ('repo',) if tier == 'quick' else ('repo', 'stdlib3.12')
        w = {'quote': 4, 'fquote': 3, 'str': 4, 'layout': 9, 'odd': 3, 'fbit': 2}
        return st.fixed_dictionaries({'code': T.adversarial_text(corpus_kinds=kinds, weights=w, nest_depth=40),
                                      'version': T.version(), 'prov': st.sampled_from(PROVENANCES), 'how': st.integers(0, 10 ** 4)})

    def check(self, case):
        code, v = case['code'], case['version']
        try:
            maybe_disturb(grammar(v), code, v)
            m, prov = tree_via(grammar(v), code, case.get('prov', 'fresh'), case.get('how', 0), digest(code, v, 'c03').hex(),
                               lambda mod, text: check_positions(mod, text))
            if len(code) % 2:
                # a client that splits the text of multi-line leaves with the public helper and edits the list it got (the list
                # belongs to the caller); positions are computed from the same texts afterwards
                import parso
                k = 0
                for l in leaves(m):
                    if k < 12 and ('\n' in l.value or '\r' in l.value):
                        k += 1
                        for keep in (False, True):
                            r = parso.split_lines(l.value, keepends=keep)
                            r.pop()
                            r.append('edited')
            fail, info = check_positions(m, code)
            if fail is not None and prov != 'fresh':
                fail = (fail[0], 'tree provenance %s: %s' % (prov, fail[1]))
        except RecursionError:
            return Outcome(excluded='recursion-limit')
        except Exception as e:
            return Outcome(fail=crash_signature(e), nontrivial=True, key=digest(code, v))
        classes = T.classify_text(code) + ['tree:' + prov]
        if info['multiline_token']:
            classes.append('multiline-token')
        if info['zero_width']:
            classes.append('zero-width-leaf')
        nt = info['multiline_token'] or info['zero_width'] or any(
            c in classes for c in ('cr', 'bom', 'non-python-separator', 'formfeed'))
        return Outcome(fail=fail, nontrivial=nt, classes=classes, key=digest(code, v, prov))

    def sample_repr(self, case):
        return {'code': short(case['code'], 200), 'version': case['version'], 'tree': case.get('prov', 'fresh')}


PROP = C03()
