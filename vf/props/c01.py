"""C01 — lossless round trip (DESIGN §2 C01)."""
import re

from hypothesis import strategies as st

from ..common import maybe_disturb, BOM, crash_signature, digest, grammar, has_error, short
from ..engine import Outcome, Prop
from ..gen import text as T

_CODING = re.compile(r'coding[=:]')


def first_two_lines(code):
    m = re.match(r'(?:[^\r\n]*(?:\r\n|\r|\n)){0,2}', code)
    return m.group(0)


def check_tree_tiling(module, code):
    """Returns None or (signature, detail).  Offsets are running sums of len(prefix)+len(value)."""
    # (2) leaf tiling through the navigation API
    parts = []
    leaf = module.get_first_leaf()
    n = 0
    while leaf is not None:
        parts.append(leaf.prefix)
        parts.append(leaf.value)
        leaf = leaf.get_next_leaf()
        n += 1
        if n > len(code) + 1000:
            return 'leaf-chain-does-not-end', 'get_next_leaf chain longer than the text'
    if ''.join(parts) != code:
        return 'leaf-tiling', 'prefix+value of the leaves != input'
    # (3) every node and leaf: get_code is the contiguous slice it spans
    # offsets by own recursive descent
    pos = [0]
    bad = []

    def rec(n):
        ch = getattr(n, 'children', None)
        if ch is None:
            p0 = pos[0]
            v0 = p0 + len(n.prefix)
            pos[0] = v0 + len(n.value)
            span = (p0, v0, pos[0])
        else:
            first = None
            for c in ch:
                s = rec(c)
                if first is None:
                    first = s
            if first is None:
                return (pos[0], pos[0], pos[0])
            span = (first[0], first[1], pos[0])
        if not bad:
            a = n.get_code()
            if a != code[span[0]:span[2]]:
                bad.append(('subtree-slice', '%s %r: get_code()=%s expected %s'
                            % (n.type, n.start_pos, short(a, 80), short(code[span[0]:span[2]], 80))))
            else:
                b = n.get_code(include_prefix=False)
                if b != code[span[1]:span[2]]:
                    bad.append(('subtree-slice-noprefix', '%s %r: get_code(include_prefix=False)=%s expected %s'
                                % (n.type, n.start_pos, short(b, 80), short(code[span[1]:span[2]], 80))))
        return span
    import sys
    sys.setrecursionlimit(max(sys.getrecursionlimit(), 5000))
    rec(module)
    if bad:
        return bad[0]
    if pos[0] != len(code):
        return 'leaf-tiling-descent', 'descent over children covers %d of %d chars' % (pos[0], len(code))
    return None


class C01(Prop):
    id = 'C01'
    rule = ('Generated: adversarial fragment soups, mutated/unmutated windows of real files, nesting builders '
            '(vf/gen/text.py) x 9 grammar versions x {str, utf-8 bytes with/without BOM bytes}. Oracle: get_code()==input; '
            'leaf prefix+value tiling; every node/leaf get_code (with and without prefix) equals the slice given by running '
            'sums of len(prefix)+len(value); bytes input equals python_bytes_to_unicode. Non-trivial: tree has an error '
            'node/leaf or text has CR, FF, BOM, backslash-newline, f-string start, non-ASCII char, or no final newline. '
            'Distinct by hash of (text, version, input kind).')
    assumptions = ['str.join/slicing/len of CPython are correct',
                   'bytes inputs are UTF-8 without a non-UTF-8 coding declaration (decoding correctness is C15)']
    fuzz = True       # thorough/quick runs add an atheris sub-tier with this check as the in-target oracle
    budgets = {'quick': 24000, 'thorough': 640000}
    time_caps = {'quick': 120, 'thorough': 1500}

    def strategy(self, tier):
        kinds = ('repo',) if tier == 'quick' else ('repo', 'stdlib3.12')
        return st.fixed_dictionaries({
            'code': T.adversarial_text(corpus_kinds=kinds),
            'version': T.version(),
            'input': st.sampled_from(['str', 'str', 'bytes', 'bytes+bom', 'bytes+latin-1', 'bytes+cp1252']),
        })

    def check(self, case):
        code, v, kind = case['code'], case['version'], case['input']
        g = grammar(v)
        maybe_disturb(g, code, v)      # process history: an unfinished earlier call must not matter
        expected = code
        try:
            if kind in ('bytes+latin-1', 'bytes+cp1252') and not _CODING.search(first_two_lines(code)):
                # a declared 8-bit codec: the tree must reproduce exactly what the library itself decodes
                codec = kind.split('+')[1]
                try:
                    data = ('# -*- coding: %s -*-\n' % codec).encode('ascii') + code.encode(codec)
                except UnicodeEncodeError:
                    data = None
                if data is not None:
                    import parso
                    expected = parso.python_bytes_to_unicode(data)
                    m = g.parse(data)
                else:
                    m = g.parse(code)
                    kind = 'str'
            elif kind != 'str' and not _CODING.search(first_two_lines(code)):
                try:
                    data = code.encode('utf-8')
                except UnicodeEncodeError:
                    data = None
                if data is not None:
                    if kind == 'bytes+bom':
                        data = b'\xef\xbb\xbf' + data
                        expected = BOM + code
                    import parso
                    dec = parso.python_bytes_to_unicode(data)
                    if dec != expected:
                        # decoding itself is C15's business; C01 only requires get_code()==decoded text
                        expected = dec
                    m = g.parse(data)
                else:
                    m = g.parse(code)
                    kind = 'str'
            else:
                kind = 'str'
                m = g.parse(code)
        except RecursionError:
            return Outcome(excluded='recursion-limit (depth bound is C02)')
        except Exception as e:
            sig, det = crash_signature(e)
            return Outcome(fail=(sig, det))
        fail = None
        try:
            got = m.get_code()
            if got != expected:
                fail = ('module-roundtrip', 'get_code() != input: %s vs %s' % (short(got, 100), short(expected, 100)))
            else:
                fail = check_tree_tiling(m, expected)
        except RecursionError:
            return Outcome(excluded='recursion-limit (depth bound is C02)')
        except Exception as e:
            fail = crash_signature(e)
        classes = T.classify_text(expected)
        err = has_error(m)
        if err:
            classes.append('error-node')
        classes.append('input:' + kind)
        nontrivial = err or any(c in classes for c in ('cr', 'formfeed', 'bom', 'backslash-nl', 'fstring',
                                                        'non-ascii', 'no-final-newline'))
        return Outcome(fail=fail, nontrivial=nontrivial, classes=classes, key=digest(expected, v, kind))

    def enumerate(self, tier, seed):
        # whole files of the corpus (thorough: all of /repo and a slice of the stdlib)
        files = T.corpus_files('repo')
        if tier == 'thorough':
            files = files + T.corpus_files('stdlib3.12')[::7]
        else:
            files = files[::4]
        from ..common import VERSIONS
        for i, f in enumerate(files):
            yield {'code': T.read_text(f), 'version': VERSIONS[i % len(VERSIONS)], 'input': 'str'}

    def sample_repr(self, case):
        return {'code': short(case['code'], 200), 'version': case['version'], 'input': case['input']}


PROP = C01()
