"""C06 — the parser accepts every sentence of the grammar and returns its derivation (DESIGN §2 C06)."""
import os

from hypothesis import strategies as st

import parso
from parso.python.tokenize import tokenize

from ..common import VERSIONS, case_int, disturb, crash_signature, digest, first_tree_diff, grammar, has_error, short
from ..engine import Outcome, Prop
from ..gen import deriv as D
from ..gen import text as T


def tokenizes_as_intended(g, text, intended):
    """Precondition: parso's tokenizer yields exactly the intended terminal sequence."""
    got = []
    for t in tokenize(text, version_info=g.version_info):
        got.append((t.type.name, t.string))
    want = []
    for sym, txt in intended:
        if sym in ('NAME', 'NUMBER', 'STRING', 'NEWLINE', 'INDENT', 'DEDENT', 'ENDMARKER', 'FSTRING_START',
                   'FSTRING_STRING', 'FSTRING_END'):
            want.append((sym, txt))
        else:
            want.append(('NAME' if (txt[0].isalpha() or txt[0] == '_') else 'OP', txt))
    if len(got) != len(want):
        return False
    for (gt, gs), (wt, ws) in zip(got, want):
        if gt != wt:
            return False
        if wt in ('INDENT', 'DEDENT', 'ENDMARKER'):
            continue
        if gs != ws:
            return False
    return True


def build(case):
    """case -> (version, start, derivation tree, text, intended)"""
    v = case['version']
    m = D.model(v)
    start = case['start']
    if case['kind'] == 'arc':
        tree = None
        for key, t in m.arc_sentences():
            if list(key) == case['arc']:
                tree = t
                break
        if tree is None:
            return None
    else:
        ch = D.Choices(case['choices'])
        tree = m.derive(start, ch, case['budget'])
    toks = D.terminals(tree)
    r = D.Renderer(m, D.Choices(case.get('layout') or []), plain=not case.get('layout'))
    text, intended = r.render(toks)
    return v, tree, text, intended


def judge(v, start, tree, text, intended):
    """Returns (fail, precondition_ok)."""
    g = grammar(v)
    # process history: an earlier call that was abandoned or aborted (see common.disturb) must not influence this one
    disturb(g, case_int(v, text), text)
    try:
        ok = tokenizes_as_intended(g, text, intended)
    except RecursionError:
        raise
    except Exception as e:
        import traceback
        if 'parso' + os.sep in traceback.extract_tb(e.__traceback__)[-1].filename:
            return crash_signature(e), True        # the tokenizer itself failed on a sentence of the grammar
        raise
    if not ok:
        # the precondition must not hide a lexical defect: every generated spelling of a NAME / NUMBER / STRING is a
        # valid Python literal and has to come back as exactly one token of its kind when tokenized on its own
        # (multi-line string spellings - triple quoted or continued with a backslash - included)
        for sym, txt in intended:
            if sym in ('NAME', 'NUMBER', 'STRING'):
                try:
                    toks = [(t.type.name, t.string) for t in tokenize(txt, version_info=g.version_info)]
                except Exception as e:
                    return crash_signature(e), True
                if toks[:-1] != [(sym, txt)]:
                    return ('spelling-not-one-token', '%s spelled %r tokenizes as %r' % (sym, txt, toks[:-1])), True
        return None, False
    kw = {} if start == 'file_input' else {'start_symbol': start}
    try:
        m = g.parse(text, error_recovery=False, **kw)
    except parso.ParserSyntaxError as e:
        return ('sentence-rejected', 'strict parse of a derived sentence raised at %r (%r): %s'
                % (e.error_leaf.start_pos, e.error_leaf.value, short(text, 200))), True
    except RecursionError:
        raise
    except Exception as e:
        return crash_signature(e), True
    texts = iter([t for _, t in intended])
    exp = D.expected_tree(tree, texts)
    act = D.actual_tree(m)
    d = D.tree_mismatch(exp, act)
    if d:
        return ('tree-differs-from-derivation', d + ' | ' + short(text, 200)), True
    if m.get_code() != text:
        return ('derived-sentence-roundtrip', short(text, 200)), True
    if start == 'file_input':
        try:
            r = g.parse(text)
        except Exception as e:
            sig, det = crash_signature(e)
            return ('recovering-' + sig, det), True
        if has_error(r):
            return ('recovering-parser-marks-error', short(text, 200)), True
        d = first_tree_diff(m, r)
        if d:
            return ('recovering-tree-differs', d), True
    return None, True


class C06(Prop):
    id = 'C06'
    rule = ('Enumerated: for every (rule, state, symbol) arc of the independently determinised automaton of every rule reachable '
            'from file_input/eval_input of every shipped grammar, a minimal sentence embedding that arc (quick: a seed-rotated third of '
            'the arcs per version; thorough: all). Generated: random derivations driven by a Hypothesis choice stream (depth budget '
            '2-9, <=7 symbols per node) rendered with generated spellings (names incl. non-ASCII, all number/string forms, structural '
            'f-strings) and layout (spaces/tabs, comments, bracketed newlines, backslash continuations, LF/CRLF, indentation units). '
            'Precondition (counted): parso tokenizes the text to exactly the intended terminals. Oracle: strict parse accepts; tree == '
            'derivation after the documented conventions (single-child collapse, suite INDENT/DEDENT dropped, args lists dissolved / '
            'param flattened, lambdef_nocond->lambdef), leaf types and values included; recovering parse identical, no error nodes. '
            'Non-trivial: derivation uses >=3 rules beyond file_input/stmt/simple_stmt; distinct by token-type sequence + text.')
    budgets = {'quick': 24000, 'thorough': 2400000}
    shrink_fields = ('choices', 'layout')
    min_nontrivial_fraction = 0.2

    def strategy(self, tier):
        return st.fixed_dictionaries({
            'kind': st.just('random'), 'version': T.version(),
            'start': st.sampled_from(['file_input'] * 4 + ['eval_input']),
            'budget': st.integers(2, 9),
            'choices': st.lists(st.integers(0, 255), min_size=10, max_size=200),
            'layout': st.one_of(st.just([]), st.lists(st.integers(0, 255), min_size=1, max_size=120)),
        })

    def enumerate(self, tier, seed):
        self._arcs_total = 0
        self._arcs_enumerated = 0
        for vi, v in enumerate(VERSIONS):
            m = D.model(v)
            for i, (key, tree) in enumerate(m.arc_sentences()):
                self._arcs_total += 1
                if tier == 'quick' and (i + seed + vi) % 3:
                    continue
                self._arcs_enumerated += 1
                start = tree[1]
                yield {'kind': 'arc', 'version': v, 'start': start, 'arc': list(key), 'layout': []}
                if tier == 'thorough':
                    # the same arc sentence also with generated layout (comments, continuations, CRLF, odd indentation)
                    yield {'kind': 'arc', 'version': v, 'start': start, 'arc': list(key), 'layout': [(i * 7 + k * 13 + seed) % 256 for k in range(40)]}

    def extra_evidence(self, tier):
        if not getattr(self, '_arcs_total', 0):
            return {}
        return {'grammar_arcs_reachable_from_start_rules': self._arcs_total, 'grammar_arcs_enumerated_this_run': self._arcs_enumerated,
                'arc_enumeration_exhaustive': self._arcs_enumerated == self._arcs_total}

    def check(self, case):
        try:
            b = build(case)
            if b is None:
                return Outcome(excluded='arc no longer exists')
            v, tree, text, intended = b
            fail, ok = judge(v, case['start'], tree, text, intended)
        except RecursionError:
            return Outcome(excluded='recursion-limit')
        rules = D.rules_used(tree)
        classes = ['start:' + case['start'], case['kind']]
        if not ok:
            return Outcome(excluded='rendering does not tokenize as intended', classes=classes + ['precondition-failed'])
        if 'fstring' in rules:
            classes.append('fstring')
        if case.get('layout'):
            classes.append('generated-layout')
        nt = len(rules - {'file_input', 'stmt', 'simple_stmt', 'eval_input'}) >= 3
        self._rules = getattr(self, '_rules', set())
        self._rules |= {(v, r) for r in rules}
        return Outcome(fail=fail, nontrivial=nt, classes=classes, key=digest(v, text), units=len(intended))

    def sample_repr(self, case):
        try:
            v, tree, text, intended = build(case)
        except Exception:
            text = '?'
        d = {k: case[k] for k in ('kind', 'version', 'start')}
        d['text'] = short(text, 300)
        if case['kind'] == 'arc':
            d['arc'] = case['arc']
        return d


PROP = C06()
