"""C09 — tokenizer lossless / position-true / balanced; prefixes pure and splittable (DESIGN §2 C09)."""
import re

from hypothesis import strategies as st

from parso.python.tokenize import tokenize
from parso.utils import parse_version_string

from ..common import BOM, ZERO_WIDTH, case_int, disturb, advance, crash_signature, digest, grammar, is_zero_width, leaves, short
from ..engine import Outcome, Prop
from ..gen import text as T

PURE = re.compile(r'(?:[ \t\f]+|#[^\r\n]*|\\(?:\r\n|\r|\n)|\r\n|\r|\n)*\Z')
COMMENT_FF = re.compile(r'#[^\r\n]*\f')


def check_tokens(code, v):
    vi = parse_version_string(v)
    info = {'special': False}
    try:
        # history: a consumer that stops reading another stream inside an indented block (or a strict parse that raises
        # there) must not influence this stream
        it = tokenize('if x:\n    if y:\n        z\n', version_info=vi)
        for _ in range(9):
            next(it)
        del it
        if len(code) % 2:
            disturb(grammar(v), case_int(code, v), code)      # more kinds of unfinished earlier calls (strict raise, aborted parse ...)
        toks = list(tokenize(code, version_info=vi))
    except RecursionError:
        raise
    except Exception as e:
        sig, det = crash_signature(e)
        return ('tokenize-' + sig, det), info
    if ''.join(t.prefix + t.string for t in toks) != code:
        return ('token-tiling', 'prefix+string of the tokens != input'), info
    names = [t.type.name for t in toks]
    if names.count('ENDMARKER') != 1 or names[-1] != 'ENDMARKER':
        return ('endmarker', 'token types end with %r, %d end markers' % (names[-3:], names.count('ENDMARKER'))), info
    depth = 0
    for n in names:
        if n == 'INDENT':
            depth += 1
        elif n == 'DEDENT':
            depth -= 1
            if depth < 0:
                return ('dedent-underflow', 'more DEDENT than INDENT at some point'), info
    if depth != 0:
        return ('indent-balance', '%d INDENT vs %d DEDENT' % (names.count('INDENT'), names.count('DEDENT'))), info
    pos = (1, 0)
    seen_real = False
    for t, n in zip(toks, names):
        if n in ZERO_WIDTH:
            if t.string or t.prefix:
                return ('zero-width-token-has-text', repr(t)), info
            continue
        pre = t.prefix
        if not seen_real and pre.startswith(BOM):
            pre = pre[1:]      # only a leading BOM is layout; elsewhere it must be inside a comment (PURE)
        seen_real = True
        if not PURE.match(pre):
            return ('impure-prefix', 'prefix %s of %r' % (short(t.prefix, 60), t)), info
        p = advance(pos, pre)
        if t.start_pos != p:
            return ('token-start', '%r: true start %r' % (t, p)), info
        pos = advance(p, t.string)
        if n in ('ERRORTOKEN', 'INDENT', 'FSTRING_START', 'FSTRING_STRING', 'FSTRING_END'):
            info['special'] = True
    if 'INDENT' in names:
        info['special'] = True
    return None, info


def part_text(p):
    return p.value if p.type == 'spacing' else p.spacing + p.value


def check_prefix_parts(m, info):
    first_real = True
    for l in leaves(m):
        zero = is_zero_width(l)
        if COMMENT_FF.search(l.prefix):
            info['comment_ff'] = True
        try:
            if (len(l.prefix) + len(l.value)) % 3 == 0:
                # history: a consumer that looks only at the first part(s) of this very prefix and drops the iterator
                it = l._split_prefix()
                for _ in range(1 + len(l.value) % 2):
                    next(it, None)
                del it
            parts = list(l._split_prefix())
        except RecursionError:
            raise
        except Exception as e:
            sig, det = crash_signature(e)
            return (('split-prefix-' + sig), det + ' | prefix %s' % short(l.prefix, 60))
        if ''.join(part_text(p) for p in parts) != l.prefix:
            return ('prefix-parts-tiling', 'prefix %s parts %r' % (short(l.prefix, 60), parts))
        if len(parts) >= 3:
            info['multi_part'] = True
        if zero:
            continue
        pos = l.get_start_pos_of_prefix()
        for p in parts:
            sp = '' if p.type == 'spacing' else p.spacing
            exp = advance(pos, sp)
            if p.start_pos != exp:
                if BOM in l.prefix:
                    return ('prefix-part-position-bom', 'prefix %s: part %r should start at %r' % (short(l.prefix, 60), p, exp))
                return ('prefix-part-start', 'prefix %s: part %r should start at %r' % (short(l.prefix, 60), p, exp))
            pos = advance(exp, '' if (p.value == BOM and first_real) else p.value)
            if p.end_pos != pos:
                if BOM in l.prefix:
                    return ('prefix-part-position-bom', 'prefix %s: part %r should end at %r' % (short(l.prefix, 60), p, pos))
                return ('prefix-part-end', 'prefix %s: part %r should end at %r, ends %r' % (short(l.prefix, 60), p, pos, p.end_pos))
        if pos != l.start_pos:
            if BOM in l.prefix:
                return ('prefix-part-position-bom', 'parts of %s end at %r, leaf starts at %r' % (short(l.prefix, 60), pos, l.start_pos))
            return ('prefix-parts-end', 'parts of %s end at %r, leaf starts at %r' % (short(l.prefix, 60), pos, l.start_pos))
        first_real = False
    return None


class C09(Prop):
    id = 'C09'
    rule = ('Generated: adversarial text with extra weight on f-string openers/bits, non-Python whitespace (NEL, NBSP, U+2028, '
            'FS/GS/RS, VT), form feeds, comments, BOM followed by more lines x 9 token collections. Oracle: tokenize never raises, '
            'one final ENDMARKER, prefix+string tile the input, every non-zero-width token start equals the reference walker, '
            'INDENT/DEDENT balanced and never negative, zero-width tokens empty, every prefix matches BOM?(ws|comment|backslash-NL|NL)* '
            'with the BOM only leading; for every leaf of parse(code): _split_prefix (for a third of the leaves preceded by a consumer that stops after the first part or two) does not raise, parts tile the prefix, part '
            'start/end equal the walker and end at the leaf. Non-trivial: stream has ERRORTOKEN/f-string token/INDENT or a prefix '
            'with >=2 typed parts.')
    assumptions = ['Token.end_pos is outside the statement (start positions only)']
    fuzz = True       # thorough/quick runs add an atheris sub-tier with this check as the in-target oracle
    budgets = {'quick': 24000, 'thorough': 640000}

    def strategy(self, tier):
        kinds = ('repo',) if tier == 'quick' else ('repo', 'stdlib3.12')
        w = {'fquote': 4, 'fbit': 5, 'odd': 4, 'comment': 4, 'layout': 8, 'quote': 2}
        bomtext = st.builds(lambda a, b: BOM + a + b, st.sampled_from(['', '\n', '#x\n', ' ', '\\\n', '\r\n#c\r\n', ' \f', '\n\n  ']),
                            T.soup(8, w))
        # text inside (unterminated / nested) f-strings: opener + inner bits + maybe the closing quote
        inner = st.lists(st.one_of(T._fbit, T._fbit, T._odd, T._odd, T._layout, T._name, T._op, T._fquote, T._num,
                                   st.sampled_from(["'", '"', "'''", '"""', '#', '\\'])), max_size=8).map(''.join)
        fstr = st.builds(lambda pre, q, body, close, tail: pre + q[0] + q[1] + body + (q[1] if close else '') + tail,
                         st.sampled_from(['', 'x = ', '(', '  ']),
                         st.tuples(st.sampled_from(['f', 'F', 'rf', 'fr', 'Rf']), st.sampled_from(T.STRING_OPENERS)),
                         inner, st.booleans(), st.sampled_from(['', '\n', ' y\n', ')\n']))
        return st.fixed_dictionaries({
            'code': st.one_of(T.adversarial_text(corpus_kinds=kinds, weights=w, nest_depth=30), T.soup(20, w), bomtext, fstr, fstr),
            'version': T.version()})

    def check(self, case):
        code, v = case['code'], case['version']
        info = {}
        try:
            fail, tinfo = check_tokens(code, v)
            info.update(tinfo)
            if fail is None:
                m = grammar(v).parse(code)
                fail = check_prefix_parts(m, info)
        except RecursionError:
            return Outcome(excluded='recursion-limit')
        except Exception as e:
            fail = crash_signature(e)
        classes = T.classify_text(code)
        if info.get('special'):
            classes.append('special-token')
        if info.get('multi_part'):
            classes.append('multi-part-prefix')
        if info.get('comment_ff'):
            classes.append('formfeed-in-comment')
        return Outcome(fail=fail, nontrivial=bool(info.get('special') or info.get('multi_part')), classes=classes,
                       key=digest(code, v))

    def sample_repr(self, case):
        return {'code': short(case['code'], 200), 'version': case['version']}


PROP = C09()
