"""C19 — serialisation and refactoring (DESIGN §2 C19)."""
import pickle

from hypothesis import strategies as st

import parso.python.tree as pytree
import parso.tree as basetree

from ..common import maybe_disturb, crash_signature, digest, first_tree_diff, grammar, has_error, nodes_preorder, parent_link_error, short
from ..engine import Outcome, Prop
from ..gen import text as T

NS = {}
for _mod in (basetree, pytree):
    for _k in dir(_mod):
        NS[_k] = getattr(_mod, _k)

INDENTS = [None, 0, 1, 4, '', '\t', '  ']
REPLACEMENTS = ['', 'X', ' y ', 'a\nb', '\n', '(1 +\n 2)', '# c\n', 'é', '\\\n', '"""s\n"""']


def offsets(m):
    """{id(node): (prefix_start, end)} from running sums of len(prefix)+len(value)."""
    res = {}
    pos = [0]

    def rec(n):
        ch = getattr(n, 'children', None)
        if ch is None:
            a = pos[0]
            pos[0] = a + len(n.prefix) + len(n.value)
            res[id(n)] = (a, pos[0])
            return a
        first = None
        for c in ch:
            a = rec(c)
            if first is None:
                first = a
        res[id(n)] = (first if first is not None else pos[0], pos[0])
        return res[id(n)][0]
    rec(m)
    return res


def same_tree(a, b, code):
    d = first_tree_diff(a, b)
    if d:
        return d
    p = parent_link_error(b)
    if p:
        return p
    if b.get_code() != code:
        return 'get_code differs'
    if a.dump() != b.dump():
        return 'dump() differs'
    return None


class C19(Prop):
    id = 'C19'
    rule = ('Generated: trees from adversarial texts / mutated real code x 9 versions x dump indent in {None,0,1,4,"","\\t","  "} x '
            'pickle protocols 2..HIGHEST x tree state {fresh; used: name index / error listing / PEP 8 listing / leaf navigation run first; diffed: the '
            'same tree reached by an in-place diff_cache update; unpickled: already through one pickle round trip} x {whole tree, a drawn sub-tree as base node} x a drawn antichain of nodes/leaves (pairwise disjoint) with replacement strings. Oracle: '
            'pickle round trip and eval(dump(indent)) give a tree equal under own comparator (class, type, value, prefix, positions, '
            'token_type, child counts), consistent parents, same get_code and dump; refactor(m, {}) == text; refactor(m, mapping) == '
            'text with each mapped span [offset of first leaf prefix, end of last leaf) replaced (offsets by running sums). '
            'Non-trivial: tree has a param, error node/leaf, keyword statement or f-string, or mapping has >=2 targets.')
    budgets = {'quick': 16000, 'thorough': 1600000}

    def strategy(self, tier):
        kinds = ('repo',) if tier == 'quick' else ('repo', 'stdlib3.12')
        w = {'stmt': 6, 'fquote': 2, 'fbit': 2}
        text = st.one_of(T.soup(20, w), T.mutated(T.corpus_window(kinds, max_lines=20), weights=w), T.corpus_window(kinds, max_lines=20),
                         T.nested(25).map(lambda t: t[0]))
        return st.fixed_dictionaries({
            'code': text, 'version': T.version(),
            'indent': st.sampled_from(INDENTS), 'protocol': st.integers(2, pickle.HIGHEST_PROTOCOL),
            # where the tree comes from / what was done with it before it is serialised
            'state': st.sampled_from(['fresh', 'fresh', 'used', 'used', 'diffed', 'unpickled']),
            'targets': st.lists(st.tuples(st.integers(0, 10 ** 6), st.sampled_from(REPLACEMENTS)), max_size=5),
            'base': st.one_of(st.just(0), st.integers(0, 10 ** 6))})

    def check(self, case):
        code, v = case['code'], case['version']
        g = grammar(v)
        maybe_disturb(g, code, v)      # process history: an unfinished earlier call must not matter
        try:
            m = g.parse(code)
        except RecursionError:
            return Outcome(excluded='recursion-limit')
        except Exception as e:
            return Outcome(fail=crash_signature(e), nontrivial=True, key=digest(code, v))
        fail = None
        ntargets = 0
        state = case.get('state', 'fresh')
        try:
            if state == 'used':
                # every lazily filled slot of the tree: name index, error listing, PEP 8 listing, navigation
                m.get_used_names()
                list(g.iter_errors(m))
                g._get_normalizer_issues(m)
                leaf = m.get_first_leaf()
                while leaf is not None:
                    leaf = leaf.get_next_leaf()
                m.get_code()
            elif state == 'diffed':
                from .c20 import diff_parse
                lines = code.split('\n')
                earlier = '\n'.join(lines[:len(lines) // 2] + ['pass'] + lines[len(lines) // 2:])
                md = diff_parse(g, [earlier, code], digest(code, v, 'c19').hex(), after_each=lambda mod: mod.get_used_names())
                if first_tree_diff(m, md) is None:
                    m = md        # same tree (C04's claim), other provenance
                else:
                    state = 'fresh'
            elif state == 'unpickled':
                m = pickle.loads(pickle.dumps(m, protocol=case['protocol']))
        except RecursionError:
            return Outcome(excluded='recursion-limit')
        except Exception as e:
            return Outcome(fail=crash_signature(e), nontrivial=True, key=digest(code, v, state))
        try:
            m2 = pickle.loads(pickle.dumps(m, protocol=case['protocol']))
            d = same_tree(m, m2, code)
            if d:
                fail = ('pickle-roundtrip', d)
            if fail is None:
                txt = m.dump(indent=case['indent'])
                m3 = eval(txt, dict(NS))
                d = same_tree(m, m3, code)
                if d:
                    fail = ('dump-eval-roundtrip', 'indent=%r: %s' % (case['indent'], d))
            if fail is None and len(code) % 3 == 0:
                # history on the SAME tree: a refactoring that fails (a replacement that is not a string) or is interrupted at its
                # n-th library line; what it left behind must not show in the refactorings below
                ls_ = []
                l_ = m.get_first_leaf()
                while l_ is not None and len(ls_) < 40:
                    ls_.append(l_)
                    l_ = l_.get_next_leaf()
                junk = {x: '<J%d>' % i for i, x in enumerate(ls_) if i % 2 == 0}
                if len(code) % 2:
                    junk[ls_[-1]] = 5
                    try:
                        g.refactor(m, junk)
                    except TypeError:
                        pass
                else:
                    from ..common import aborted
                    aborted(lambda: g.refactor(m, junk), 3 + len(code) % 150)
            if fail is None:
                r = g.refactor(m, {})
                if r != code:
                    fail = ('refactor-empty-map', short(r, 100))
            if fail is None:
                N = nodes_preorder(m)
                off = offsets(m)
                chosen = []
                spans = []
                for idx, rep in case['targets']:
                    n = N[idx % len(N)]
                    a, b = off[id(n)]
                    if any(not (b <= c or d2 <= a) or (a == b == c) for c, d2 in spans) or n is m and False:
                        continue   # overlaps an already chosen target (ancestor/descendant) - keep an antichain
                    if a == b:
                        continue   # empty span (e.g. zero-width leaf): ambiguous splice order, not claimed
                    spans.append((a, b))
                    chosen.append((n, a, b, rep))
                ntargets = len(chosen)
                mapping = {n: rep for n, a, b, rep in chosen}
                exp = code
                for n, a, b, rep in sorted(chosen, key=lambda t: -t[1]):
                    exp = exp[:a] + rep + exp[b:]
                got = g.refactor(m, mapping)
                if got != exp:
                    fail = ('refactor-splice', 'targets %r: got %s expected %s'
                            % ([(n.type, a, b, rep) for n, a, b, rep in chosen], short(got, 120), short(exp, 120)))
                if fail is None and case.get('base'):
                    # the same map applied to a sub-tree: the code of that node (prefix included) with the mapped nodes inside it replaced
                    bn = N[case['base'] % len(N)]
                    a0, b0 = off[id(bn)]
                    if bn in mapping:
                        exp = mapping[bn]
                    else:
                        exp = code[a0:b0]
                        def inside(n):
                            while n is not None and n is not bn:
                                n = n.parent
                            return n is bn
                        for n, a, b, rep in sorted(chosen, key=lambda t: -t[1]):
                            if inside(n):        # (a mapped ancestor of the base, or a node elsewhere, is not visited)
                                exp = exp[:a - a0] + rep + exp[b - a0:]
                    got = g.refactor(bn, mapping)
                    if got != exp:
                        fail = ('refactor-splice-subtree', 'base %s %r, targets %r: got %s expected %s'
                                % (bn.type, (a0, b0), [(n.type, a, b, rep) for n, a, b, rep in chosen], short(got, 120), short(exp, 120)))
        except RecursionError:
            return Outcome(excluded='recursion-limit')
        except Exception as e:
            fail = crash_signature(e)
        classes = []
        types = {n.type for n in nodes_preorder(m)}
        for t, c in (('param', 'param'), ('error_node', 'error'), ('error_leaf', 'error'), ('fstring', 'fstring'),
                     ('keyword', 'keyword'), ('return_stmt', 'keyword-stmt'), ('import_from', 'keyword-stmt'), ('global_stmt', 'keyword-stmt')):
            if t in types and c not in classes:
                classes.append(c)
        if ntargets >= 2:
            classes.append('multi-target')
        classes.append('state:' + state)
        nt = bool(set(classes) & {'param', 'error', 'fstring', 'keyword-stmt', 'multi-target'})
        return Outcome(fail=fail, nontrivial=nt, classes=classes, key=digest(code, v, case['indent'], case['protocol'], case['targets'], state, case.get('base')))

    def sample_repr(self, case):
        d = dict(case)
        d['code'] = short(case['code'], 200)
        return d


PROP = C19()
