"""C07 — strict and recovering parsers agree (DESIGN §2 C07)."""
from hypothesis import strategies as st

import parso

from ..common import ZERO_WIDTH, crash_signature, digest, first_tree_diff, grammar, nodes_preorder, short
from ..engine import Outcome, Prop
from ..gen import text as T


def first_error(m):
    """min by position over {error leaves} U {leaf following each error node}, at any depth."""
    cands = []
    for n in nodes_preorder(m):
        if n.type == 'error_leaf':
            cands.append(n)
        elif n.type == 'error_node':
            nl = n.get_next_leaf()
            if nl is not None:
                cands.append(nl)
    if not cands:
        return None
    best = cands[0]
    for c in cands[1:]:
        if c.start_pos < best.start_pos:
            best = c
    return best


class C07(Prop):
    id = 'C07'
    rule = ('Generated: short fragment soups, dedented windows of real code, single-edit mutations of those x 9 versions, '
            'file_input start. Oracle: strict parse raises ParserSyntaxError <=> recovered tree has an error node/leaf; no raise '
            '=> trees structurally identical (own comparator); raise => error_leaf has the (value, start_pos) of the first error '
            '(min by position over error leaves and leaves following error nodes at any depth; zero-width indentation tokens '
            'compare position only). Non-trivial: strict mode raised, or text has >= 2 statements (newline inside).')
    budgets = {'quick': 32000, 'thorough': 3200000}

    def strategy(self, tier):
        kinds = ('repo',) if tier == 'quick' else ('repo', 'stdlib3.12')
        win = T.corpus_window(kinds, max_lines=12, dedent=True)
        text = st.one_of(T.soup(12), T.soup(12), win, T.mutated(win, max_edits=1), T.mutated(win, max_edits=2),
                         T.nested(10).map(lambda t: t[0]))
        return st.fixed_dictionaries({'code': text, 'version': T.version()})

    def check(self, case):
        code, v = case['code'], case['version']
        g = grammar(v)
        from ..common import case_int, disturb
        disturb(g, case_int(code, v), code)
        try:
            m = g.parse(code)
        except RecursionError:
            return Outcome(excluded='recursion-limit')
        except Exception as e:
            return Outcome(fail=crash_signature(e), nontrivial=True, key=digest(code, v))
        fe = first_error(m)
        exc = None
        s = None
        try:
            s = g.parse(code, error_recovery=False)
        except parso.ParserSyntaxError as e:
            exc = e
        except RecursionError:
            return Outcome(excluded='recursion-limit')
        except Exception as e:
            sig, det = crash_signature(e)
            return Outcome(fail=('strict-' + sig, det), nontrivial=True, key=digest(code, v))
        fail = None
        if exc is None:
            if fe is not None:
                fail = ('strict-accepts-but-recovery-marks-error', 'first error %r at %r' % (fe, fe.start_pos))
            else:
                d = first_tree_diff(s, m)
                if d:
                    fail = ('strict-tree-differs', d)
        else:
            el = exc.error_leaf
            if fe is None:
                fail = ('strict-raises-but-recovery-clean', 'strict error leaf %r at %r' % (el, el.start_pos))
            else:
                tt = getattr(el.token_type, 'name', el.token_type)
                if el.value == '' and tt in ZERO_WIDTH:
                    if el.start_pos != fe.start_pos:
                        fail = ('error-position-differs', 'strict %r at %r, recovering first error %r at %r' % (el, el.start_pos, fe, fe.start_pos))
                elif (el.value, el.start_pos) != (fe.value, fe.start_pos):
                    fail = ('error-position-differs', 'strict %r at %r, recovering first error %r at %r' % (el, el.start_pos, fe, fe.start_pos))
        classes = ['invalid' if exc is not None else 'valid']
        multi = '\n' in code.strip('\r\n') or '\r' in code.strip('\r\n')
        if multi:
            classes.append('multi-statement')
        return Outcome(fail=fail, nontrivial=exc is not None or multi, classes=classes, key=digest(code, v))

    def sample_repr(self, case):
        return {'code': short(case['code'], 200), 'version': case['version']}


PROP = C07()
