"""C02 — error recovery is total (DESIGN §2 C02)."""
import signal
import sys
import time

from hypothesis import strategies as st

from ..common import case_int, crash_signature, digest, disturb, grammar, has_error, short
from ..engine import Outcome, Prop
from ..gen import text as T

WATCHDOG_S = 20
SLOW_S = 15
LINE_BUDGET = 10 ** 7


class _Timeout(BaseException):
    pass


def _alarm(signum, frame):
    raise _Timeout()


class _Budget(BaseException):
    pass


def shape_error(m):
    if m.type != 'file_input':
        return 'root-type', 'root type is %r' % m.type
    if m.parent is not None:
        return 'root-parent', 'root has a parent'
    if not getattr(m, 'children', None) or m.children[-1].type != 'endmarker':
        return 'no-endmarker', 'last child of the module is not the end marker'
    stack = [m]
    while stack:
        n = stack.pop()
        ch = getattr(n, 'children', None)
        if ch is None:
            if not isinstance(n.value, str) or not isinstance(n.prefix, str):
                return 'leaf-fields', 'leaf %r has non-str value/prefix' % n
        else:
            if len(ch) < 1:
                return 'empty-node', 'interior node of type %s has no children' % n.type
            stack.extend(ch)
    return None


def parse_guarded(g, code, **kw):
    """Parse with the interpreter's standard recursion head-room (1000 frames above the
    caller), under a watchdog.  Returns (module, None) or (None, fail)."""
    depth = len(__import__('inspect').stack(0)) if False else _depth()
    old = sys.getrecursionlimit()
    sys.setrecursionlimit(depth + 950)
    old_h = signal.signal(signal.SIGALRM, _alarm)
    signal.setitimer(signal.ITIMER_REAL, WATCHDOG_S)
    try:
        return g.parse(code, **kw), None
    except _Timeout:
        pass
    except Exception as e:
        return None, crash_signature(e)
    finally:
        signal.setitimer(signal.ITIMER_REAL, 0)
        signal.signal(signal.SIGALRM, old_h)
        sys.setrecursionlimit(old)
    # flagged by the watchdog: decide deterministically with a line-event budget
    count = [0]

    def tracer(frame, event, arg):
        if event == 'line':
            count[0] += 1
            if count[0] > LINE_BUDGET:
                raise _Budget()
        return tracer
    sys.settrace(tracer)
    try:
        m = g.parse(code, **kw)
        return m, None
    except _Budget:
        return None, ('non-termination', 'parse exceeded %d line events' % LINE_BUDGET)
    except Exception as e:
        return None, crash_signature(e)
    finally:
        sys.settrace(None)


def abandon_strict_parse(g):
    """History: a strict parse that raises inside an indented block drops its token stream mid-way; the following
    parse must not see any of that state."""
    import parso
    try:
        g.parse('def f(a):\n    if a:\n        b = = 1\n', error_recovery=False)
    except parso.ParserSyntaxError:
        pass


def _depth():
    f = sys._getframe()
    n = 0
    while f is not None:
        n += 1
        f = f.f_back
    return n


class C02(Prop):
    id = 'C02'
    rule = ('Generated: nesting builders (brackets, prefix operators, lambda/comprehension/f-string nesting, indentation '
            'ladders with and without colons; combined depth drawn in 0..100 and never above), reserved-word/operator soups, '
            'mutated real code, texts ending inside multi-line constructs x 9 versions. Oracle: parse returns (any exception, '
            'including RecursionError within the standard 1000-frame head-room, is a violation), root file_input without parent, '
            'last child endmarker, every interior node has >=1 child, every leaf has str value/prefix; termination decided by a '
            'line-event budget after a watchdog flag. Non-trivial: tree has an error node/leaf or generated depth >= 20.')
    assumptions = ['nesting depth of every generated text is <= 100 by construction (builders count each opener by the number '
                   'of grammar constructs it opens)']
    fuzz = True       # thorough/quick runs add an atheris sub-tier with this check as the in-target oracle
    budgets = {'quick': 24000, 'thorough': 640000}
    hang_timeout = 40          # seconds without progress of a worker before the parent inspects its current case

    def confirm_hang(self, case):
        """A worker stopped making progress on ``case`` (no Python-level events: e.g. a backtracking regex in C).
        Confirm in isolation: two fresh subprocesses, 60 s each, for an input that normally parses in milliseconds."""
        import json
        import subprocess
        from ..common import REPO
        prog = ('import sys, json; sys.path.insert(0, %r); import parso; c = json.load(sys.stdin); '
                'parso.load_grammar(version=c["version"]).parse(c["code"]); print("done")' % REPO)
        for _ in range(2):
            try:
                r = subprocess.run([sys.executable, '-c', prog], input=json.dumps(case).encode(), capture_output=True, timeout=60)
                if b'done' in r.stdout or r.returncode != 0:
                    return None          # finished in time (or crashed: the in-process check reports crashes itself)
            except subprocess.TimeoutExpired:
                continue
        return ('does-not-terminate', 'parse did not finish within 60 s in two isolated runs (%d chars): %s'
                % (len(case['code']), short(case['code'], 200)))

    def strategy(self, tier):
        kinds = ('repo',) if tier == 'quick' else ('repo', 'stdlib3.12')
        w = {'op': 8, 'kw': 6, 'quote': 3, 'fquote': 3, 'fbit': 3}
        nest = T.nested(100).map(lambda t: {'code': t[0], 'depth': t[1]})
        other = T.adversarial_text(corpus_kinds=kinds, weights=w, nest_depth=100).map(lambda c: {'code': c, 'depth': 0})
        return st.builds(lambda c, v: dict(c, version=v), st.one_of(nest, nest, other, other, other), T.version())

    def check(self, case):
        code, v = case['code'], case['version']
        g = grammar(v)
        disturb(g, case_int(code, v), code)
        t0 = time.time()
        m, fail = parse_guarded(g, code)
        if time.time() - t0 > SLOW_S and fail is None:
            # inputs of this size parse in milliseconds; this is a *candidate* that the engine confirms in isolation
            return Outcome(fail=('does-not-terminate', 'parse took %.0f s in the worker (candidate, %d chars)' % (time.time() - t0, len(code))),
                           nontrivial=True, key=digest(code, v), classes=['slow'])
        if m is None:
            return Outcome(fail=fail, nontrivial=True, key=digest(code, v), classes=['failed'])
        fail = shape_error(m)
        err = has_error(m)
        classes = T.classify_text(code)
        if err:
            classes.append('error-node')
        d = case.get('depth', 0)
        classes.append('depth>=50' if d >= 50 else 'depth>=20' if d >= 20 else 'depth<20')
        return Outcome(fail=fail, nontrivial=err or d >= 20, classes=classes, key=digest(code, v))

    def enumerate(self, tier, seed):
        # the depth-100 ladder of every opener / block kind, closed and unclosed, in two versions
        for v in ('3.6', '3.12', '3.14') if tier == 'thorough' else ('3.6', '3.12'):
            for o in T._OPENERS:
                w = T._OPENER_WEIGHT.get(o, 1)
                n = 100 // w
                c = T._CLOSERS.get(o, '')
                for code in (o * n + 'x' + c * n + '\n', o * n + 'x\n', o * n, o * n + '\n' + c * n):
                    yield {'code': code, 'version': v, 'depth': 100}
            for b in T._BLOCKS:
                for unit in (' ', '\t'):
                    code = ''.join(unit * d + b + '\n' for d in range(100)) + unit * 100 + 'pass\n'
                    yield {'code': code, 'version': v, 'depth': 100}
                    yield {'code': code + 'x', 'version': v, 'depth': 100}

    def sample_repr(self, case):
        return {'code': short(case['code'], 200), 'version': case['version'], 'depth': case.get('depth')}


PROP = C02()
