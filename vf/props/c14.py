"""C14 — scope/definition/parameter/import helpers agree with CPython's AST (DESIGN §2 C14).
Runs against the *running* interpreter's ast/tokenize (3.12 in /venv), version='3.12' grammar."""
import ast
import io
import sys
import tokenize
import warnings

from hypothesis import strategies as st

from ..common import VERSIONS, aborted, case_int, maybe_disturb, crash_signature, digest, grammar, has_error, leaf_starting_at, nodes_preorder, short
from ..engine import Outcome, Prop
from ..gen import text as T
from ..gen import valid as V
from ..oracle import client

PYV = '%d.%d' % sys.version_info[:2]


class Skip(Exception):
    pass


class Facts:
    """Facts from CPython's AST, with positions converted to (line, character column)."""

    def __init__(self, src):
        with warnings.catch_warnings():
            warnings.simplefilter('ignore')
            self.tree = ast.parse(src)
            compile(self.tree, '<x>', 'exec', dont_inherit=True)
        self.src = src
        self.raw = src.encode('utf-8').split(b'\n')
        self.toks = list(tokenize.generate_tokens(io.StringIO(src).readline))
        self.tokpos = {t.start: i for i, t in enumerate(self.toks)}

    def col(self, lineno, boff):
        return len(self.raw[lineno - 1][:boff].decode('utf-8'))

    def pos(self, n):
        return (n.lineno, self.col(n.lineno, n.col_offset))

    def endpos(self, n):
        return (n.end_lineno, self.col(n.end_lineno, n.end_col_offset))

    def name_after(self, pos, kw):
        i = self.tokpos.get(pos)
        if i is None:
            raise Skip('token position')
        while self.toks[i].string != kw:
            i += 1
        return self.toks[i + 1].start

    def definitions(self):
        defs = set()
        for n in ast.walk(self.tree):
            if isinstance(n, ast.Name) and isinstance(n.ctx, (ast.Store, ast.Del)):
                defs.add(self.pos(n))
            elif isinstance(n, ast.Attribute) and isinstance(n.ctx, (ast.Store, ast.Del)):
                e = self.endpos(n)
                defs.add((e[0], e[1] - len(n.attr)))
            elif isinstance(n, ast.arg):
                defs.add(self.pos(n))
            elif isinstance(n, (ast.FunctionDef, ast.AsyncFunctionDef)):
                defs.add(self.name_after(self.pos(n), 'def'))
            elif isinstance(n, ast.ClassDef):
                defs.add(self.name_after(self.pos(n), 'class'))
            elif isinstance(n, ast.alias):
                if n.name == '*':
                    continue
                p = self.pos(n)
                defs.add(self.name_after(p, 'as') if n.asname else p)
            elif isinstance(n, ast.ExceptHandler) and n.name:
                p = self.endpos(n.type)
                cand = [i for q, i in self.tokpos.items() if q >= p and self.toks[i].string == 'as']
                defs.add(self.toks[min(cand) + 1].start)
            elif isinstance(n, (ast.MatchAs, ast.MatchStar, ast.MatchMapping, ast.Match)):
                raise Skip('match statement')
            elif hasattr(ast, 'TypeAlias') and isinstance(n, ast.TypeAlias):
                raise Skip('type alias statement')
            # PEP 695 type parameters (TypeVar / ParamSpec / TypeVarTuple) carry their name as a plain string: CPython
            # lists no binding occurrence for them, and the helpers of generic functions/classes are compared as usual
        return defs


SCOPES = (ast.FunctionDef, ast.AsyncFunctionDef, ast.ClassDef, ast.Lambda)


def own_scope_nodes(fn, types):
    """Nodes of the given types that belong to the scope of ``fn``: its body without nested scopes' bodies, but
    including what nested scopes evaluate in *this* scope (defaults, annotations, decorators, base classes)."""
    out = []

    def visit(c):
        if isinstance(c, types):
            out.append(c)
        if isinstance(c, SCOPES):
            if isinstance(c, ast.Lambda):
                outer_parts = [c.args]
            elif isinstance(c, ast.ClassDef):
                outer_parts = list(c.bases) + list(c.keywords) + list(c.decorator_list)
            else:
                outer_parts = [c.args] + list(c.decorator_list) + ([c.returns] if c.returns is not None else [])
            for part in outer_parts:
                visit(part)
            return
        for x in ast.iter_child_nodes(c):
            visit(x)
    body = fn.body if isinstance(fn.body, list) else [fn.body]
    for part in body:
        visit(part)
    return out


def stmt_scope(owner):
    out = {'f': [], 'c': [], 'i': []}

    def rec(stmts):
        for s in stmts:
            if isinstance(s, (ast.FunctionDef, ast.AsyncFunctionDef)):
                out['f'].append((s.name, s.lineno))
            elif isinstance(s, ast.ClassDef):
                out['c'].append((s.name, s.lineno))
            elif isinstance(s, (ast.Import, ast.ImportFrom)):
                out['i'].append(s.lineno)
            else:
                for fld in ('body', 'orelse', 'finalbody'):
                    b = getattr(s, fld, None)
                    if isinstance(b, list):
                        rec(b)
                for h in getattr(s, 'handlers', None) or []:
                    rec(h.body)
                for c in getattr(s, 'cases', None) or []:
                    rec(c.body)
    rec(owner.body)
    return out


def expected_params(args):
    exp = []
    pos = list(getattr(args, 'posonlyargs', [])) + list(args.args)
    nd = len(args.defaults)
    for i, x in enumerate(pos):
        exp.append((x.arg, 0, i >= len(pos) - nd, x.annotation is not None))
    if args.vararg:
        exp.append((args.vararg.arg, 1, False, args.vararg.annotation is not None))
    for x, d in zip(args.kwonlyargs, args.kw_defaults):
        exp.append((x.arg, 0, d is not None, x.annotation is not None))
    if args.kwarg:
        exp.append((args.kwarg.arg, 2, False, args.kwarg.annotation is not None))
    return exp


def compare(src, m, facts):
    """Returns (fail, info)."""
    info = {'functions': 0, 'imports': 0, 'definitions': 0, 'feats': set()}
    tree = facts.tree
    # ---- definitions -------------------------------------------------------------------------
    a = facts.definitions()
    p = {}
    for names in m.get_used_names().values():
        for n in names:
            d = n.get_definition()
            if d is not None:
                p[n.start_pos] = n
                anc = n.parent
                while anc is not None and anc is not d:
                    anc = anc.parent
                if anc is None:
                    return ('get-definition-not-an-ancestor', '%r -> %r' % (n, d)), info
            if n.is_definition() != (d is not None):
                return ('is-definition-inconsistent', repr(n)), info
    info['definitions'] = len(a)
    deferred = None
    if a != set(p):
        for pos in sorted(a ^ set(p)):
            leaf = leaf_starting_at(m, pos)
            anc = []
            x = leaf
            while x is not None and x.parent is not None and len(anc) < 3:
                x = x.parent
                anc.append(x.type)
            side = 'definition-missing' if pos in a else 'definition-spurious'
            tag = '/'.join(anc)
            if pos in a and leaf is not None and leaf.parent is not None and leaf.parent.type == 'argument' \
                    and len(leaf.parent.children) > 1 and leaf.parent.children[1] == ':=':
                tag = 'walrus-in-call-argument'
            elif pos in a and leaf is not None and leaf.parent is not None and leaf.get_next_sibling() == ':=':
                # one root cause per node type that holds an unparenthesised assignment expression
                tag = 'walrus-in-' + leaf.parent.type
            line = src.split('\n')[pos[0] - 1]
            f = ('%s:%s' % (side, tag), 'name %r at %r: CPython binds=%r parso is_definition=%r | %s'
                 % (leaf, pos, pos in a, pos in p, short(line, 100)))
            if tag == 'walrus-in-call-argument':
                deferred = deferred or f       # listed finding: keep comparing everything else
                continue
            return f, info
    # ---- index parso scopes ------------------------------------------------------------------------
    pf, pc, pl = {}, {}, {}
    imports = []
    for node in nodes_preorder(m):
        if node.type == 'funcdef':
            pf[node.children[0].start_pos[0], node.name.value] = node
        elif node.type == 'classdef':
            pc[node.children[0].start_pos[0], node.name.value] = node
        elif node.type == 'lambdef':
            pl[node.start_pos] = node
        elif node.type in ('import_name', 'import_from'):
            imports.append(node)

    def cmp_scope(a_node, p_node, what):
        exp = stmt_scope(a_node)
        gf = sorted((x.name.value, x.children[0].start_pos[0]) for x in p_node.iter_funcdefs())
        gc = sorted((x.name.value, x.children[0].start_pos[0]) for x in p_node.iter_classdefs())
        gi = sorted(x.start_pos[0] for x in p_node.iter_imports())
        if gf != sorted(exp['f']):
            return ('scope-funcdefs', '%s: parso %r, CPython %r' % (what, gf[:5], sorted(exp['f'])[:5]))
        if gc != sorted(exp['c']):
            return ('scope-classdefs', '%s: parso %r, CPython %r' % (what, gc[:5], sorted(exp['c'])[:5]))
        if gi != sorted(exp['i']):
            return ('scope-imports', '%s: parso %r, CPython %r' % (what, gi[:5], sorted(exp['i'])[:5]))
        return None

    def doc_check(a_node, p_node, what):
        b0 = a_node.body[0] if a_node.body else None
        has = isinstance(b0, ast.Expr) and isinstance(b0.value, ast.Constant) and isinstance(b0.value.value, str)
        d = p_node.get_doc_node()
        if has:
            seg = ast.get_source_segment(src, b0.value)
            if seg is None:
                return None
            try:
                toks = [t for t in tokenize.generate_tokens(io.StringIO(seg + '\n').readline) if t.type == tokenize.STRING]
            except (tokenize.TokenError, SyntaxError, IndentationError):
                return None
            stmt_seg = ast.get_source_segment(src, b0)
            if stmt_seg != seg:
                return None        # parenthesised literal: outside the claim
            single = len(toks) == 1 and toks[0].string == seg and not seg.lstrip('rRuUbB').lower().startswith('f') \
                and not seg[:2].lower() in ('f"', "f'") and 'f' not in seg[:seg.find(seg.lstrip('rRuUbBfF')[0])].lower()
            if single and (d is None or d.value != seg):
                return ('docstring-missing', '%s line %s: %s' % (what, getattr(a_node, 'lineno', 0), short(seg, 60)))
        elif d is not None:
            return ('docstring-spurious', '%s line %s: %s' % (what, getattr(a_node, 'lineno', 0), short(d.value, 60)))
        return None

    r = cmp_scope(tree, m, 'module') or doc_check(tree, m, 'module')
    if r:
        return r, info
    for a_node in ast.walk(tree):
        if isinstance(a_node, (ast.FunctionDef, ast.AsyncFunctionDef)):
            kwline = facts.pos(a_node)[0]
            if isinstance(a_node, ast.AsyncFunctionDef):
                # parso indexes by the 'def' keyword line
                kwline = facts.name_after(facts.pos(a_node), 'def')[0]
                i = facts.tokpos[facts.pos(a_node)]
                while facts.toks[i].string != 'def':
                    i += 1
                kwline = facts.toks[i].start[0]
            p_node = pf.get((kwline, a_node.name))
            if p_node is None:
                return ('function-not-found', 'def %s line %d' % (a_node.name, a_node.lineno)), info
            info['functions'] += 1
            r = cmp_scope(a_node, p_node, 'def %s' % a_node.name) or doc_check(a_node, p_node, 'def %s' % a_node.name)
            if r:
                return r, info
            exp = expected_params(a_node.args)
            got = [(q.name.value, q.star_count, q.default is not None, q.annotation is not None) for q in p_node.get_params()]
            if got != exp:
                return ('function-params', 'def %s line %d: parso %r, CPython %r' % (a_node.name, a_node.lineno, got, exp)), info
            if len(exp) >= 2:
                info['feats'].add('multi-param')
            if (p_node.annotation is not None) != (a_node.returns is not None):
                return ('return-annotation', 'def %s line %d' % (a_node.name, a_node.lineno)), info
            if a_node.returns is not None:
                seg = ast.get_source_segment(src, a_node.returns)
                if seg is not None and ''.join(seg.split()) != ''.join(p_node.annotation.get_code().split()):
                    # parenthesised annotations: CPython's segment excludes the parentheses
                    if ''.join(seg.split()) != ''.join(p_node.annotation.get_code().split()).strip('()'):
                        return ('return-annotation-text', 'def %s: parso %s, CPython %s' % (a_node.name, short(p_node.annotation.get_code(), 60), short(seg, 60))), info
            isgen = bool(own_scope_nodes(a_node, (ast.Yield, ast.YieldFrom)))
            if bool(p_node.is_generator()) != isgen:
                tag = ''
                ys = [y.start_pos for y in p_node.iter_yield_exprs()]
                if ys and not isgen and all(y < p_node.children[-1].start_pos for y in ys):
                    tag = ':yield-only-in-parameter-defaults-or-annotations'
                return ('is-generator' + tag, 'def %s line %d: parso %r, CPython %r' % (a_node.name, a_node.lineno, p_node.is_generator(), isgen)), info
            r1 = sorted(x.lineno for x in own_scope_nodes(a_node, ast.Return))
            r2 = sorted(x.start_pos[0] for x in p_node.iter_return_stmts())
            if r1 != r2:
                return ('return-stmts', 'def %s line %d: parso lines %r, CPython %r' % (a_node.name, a_node.lineno, r2[:6], r1[:6])), info
            r1 = sorted(x.lineno for x in own_scope_nodes(a_node, ast.Raise))
            r2 = sorted(x.start_pos[0] for x in p_node.iter_raise_stmts())
            if r1 != r2:
                return ('raise-stmts', 'def %s line %d: parso lines %r, CPython %r' % (a_node.name, a_node.lineno, r2[:6], r1[:6])), info
        elif isinstance(a_node, ast.ClassDef):
            i = facts.tokpos.get(facts.pos(a_node))
            p_node = pc.get((facts.pos(a_node)[0], a_node.name))
            if p_node is None:
                return ('class-not-found', 'class %s line %d' % (a_node.name, a_node.lineno)), info
            r = cmp_scope(a_node, p_node, 'class %s' % a_node.name) or doc_check(a_node, p_node, 'class %s' % a_node.name)
            if r:
                return r, info
        elif isinstance(a_node, ast.Lambda):
            p_node = pl.get(facts.pos(a_node))
            if p_node is None:
                return ('lambda-not-found', 'lambda at %r' % (facts.pos(a_node),)), info
            exp = expected_params(a_node.args)
            got = [(q.name.value, q.star_count, q.default is not None, q.annotation is not None) for q in p_node.get_params()]
            if got != exp:
                return ('lambda-params', 'lambda at %r: parso %r, CPython %r' % (facts.pos(a_node), got, exp)), info
            isgen = bool(own_scope_nodes(a_node, (ast.Yield, ast.YieldFrom)))
            if bool(p_node.is_generator()) != isgen:
                return ('lambda-is-generator', 'lambda at %r' % (facts.pos(a_node),)), info
            info['feats'].add('lambda')
    # ---- imports -------------------------------------------------------------------------------------
    a_imports = sorted((n for n in ast.walk(tree) if isinstance(n, (ast.Import, ast.ImportFrom))),
                       key=lambda n: (n.lineno, n.col_offset))
    p_imports = sorted(imports, key=lambda n: n.start_pos)
    if len(a_imports) != len(p_imports):
        return ('import-count', 'parso %d, CPython %d' % (len(p_imports), len(a_imports))), info
    for a_node, p_node in zip(a_imports, p_imports):
        info['imports'] += 1
        if isinstance(a_node, ast.Import):
            if p_node.type != 'import_name':
                return ('import-kind', 'line %d' % a_node.lineno), info
            exp_paths = [al.name.split('.') for al in a_node.names]
            exp_defs = [al.asname or al.name.split('.')[0] for al in a_node.names]
            exp_level = 0
            star = False
            exp_alias = {al.asname: al.name.split('.')[-1] for al in a_node.names if al.asname}
        else:
            if p_node.type != 'import_from':
                return ('import-kind', 'line %d' % a_node.lineno), info
            mod = a_node.module.split('.') if a_node.module else []
            star = len(a_node.names) == 1 and a_node.names[0].name == '*'
            exp_paths = [mod] if star else [mod + [al.name] for al in a_node.names]
            exp_defs = [] if star else [al.asname or al.name for al in a_node.names]
            exp_level = a_node.level
            exp_alias = {al.asname: al.name for al in a_node.names if al.asname}
        raw_paths = [list(path) for path in p_node.get_paths()]
        raw_defs = list(p_node.get_defined_names())
        bad = [x for x in [n for path in raw_paths for n in path] + raw_defs if getattr(x, 'type', None) != 'name']
        if bad:
            # the documented result is lists of Name leaves; anything else is a wrong answer, not a harness problem
            return ('import-paths', 'line %d: get_paths()/get_defined_names() returned a non-name object %r (CPython paths %r)'
                    % (a_node.lineno, bad[0], exp_paths)), info
        got_paths = [[n.value for n in path] for path in raw_paths]
        got_defs = [n.value for n in raw_defs]
        if got_paths != exp_paths:
            return ('import-paths', 'line %d: parso %r, CPython %r' % (a_node.lineno, got_paths, exp_paths)), info
        if got_defs != exp_defs:
            return ('import-defined-names', 'line %d: parso %r, CPython %r' % (a_node.lineno, got_defs, exp_defs)), info
        if p_node.level != exp_level:
            return ('import-level', 'line %d: parso %r, CPython %r' % (a_node.lineno, p_node.level, exp_level)), info
        if bool(p_node.is_star_import()) != star:
            return ('import-star', 'line %d' % a_node.lineno), info
        got_alias = {k.value: v.value for k, v in p_node._aliases().items()}
        if got_alias != exp_alias:
            return ('import-aliases', 'line %d: parso %r, CPython %r' % (a_node.lineno, got_alias, exp_alias)), info
        if exp_alias:
            info['feats'].add('import-alias')
    return deferred, info


class C14(Prop):
    id = 'C14'
    rule = ('Generated: statement-aligned windows of real code (repo + stdlib 3.12), token-level mutations, hand-written programs rich '
            'in targets/parameters/imports/lambdas; domain: the running CPython (%s) compiles the program and parso (grammar %s) parses '
            'it without error nodes; match statements and `type` alias statements skipped (PEP 695 generic functions/classes are included). Oracle: facts from ast.parse with byte->character '
            'columns and tokenize for non-Name binding sites: definition set == name leaves with is_definition(); get_definition() is an '
            'ancestor; per scope iter_funcdefs/iter_classdefs/iter_imports; per function/lambda get_params (name, star kind, default, '
            'annotation), return annotation presence/text, is_generator, return/raise statement lines; per import paths, defined names, '
            'level, star, aliases; docstring node iff CPython sees a docstring written as one plain string literal. Non-trivial: program '
            'has a function with >=2 parameters, an import alias, a lambda, or a starred/attribute/walrus target.' % (PYV, PYV))
    assumptions = ['the running interpreter of /venv is the reference (in-process ast, tokenize)']
    budgets = {'quick': 12000, 'thorough': 1200000}
    min_nontrivial_fraction = 0.05

    def teardown_shard(self):
        client.close_all()

    def strategy(self, tier):
        kinds = ('repo', 'stdlib' + PYV)
        # grammar version: the reference's own half of the time, otherwise any shipped grammar (cross-grammar clause, see check)
        gv = st.one_of(st.just(PYV), st.sampled_from(VERSIONS))
        return st.fixed_dictionaries({'code': V.candidates(kinds), 'gv': gv})

    def enumerate(self, tier, seed):
        files = T.corpus_files('stdlib' + PYV) + T.corpus_files('repo')
        step = 40 if tier == 'quick' else 2
        for i, f in enumerate(files[seed % step::step]):
            code = T.read_text(f)
            if len(code) < 150000:
                yield {'code': code, 'gv': PYV if i % 2 == 0 else VERSIONS[(seed + i // 2) % len(VERSIONS)]}

    def check(self, case):
        code = case['code']
        if '\x00' in code or '\r' in code or '\f' in code:
            return Outcome(excluded='CR/FF/NUL (line numbering of ast vs tokenize differs; not about the helpers)')
        try:
            facts = Facts(code)
        except (SyntaxError, ValueError, RecursionError, MemoryError, OverflowError, tokenize.TokenError, IndentationError):
            return Outcome(excluded='reference rejects')
        gv = case.get('gv', PYV)
        if gv != PYV:
            # Cross-grammar clause: the helpers are version-independent code that walks version-dependent tree shapes
            # (argument/namedexpr_test/decorator/subscript/async nodes differ between the grammar files).  The binding facts of a
            # program do not depend on the interpreter version, so when CPython gv accepts the program too (for <= 3.7 also 3.8,
            # which does not skip dead blocks) the facts of the reference AST are the facts for the tree of grammar gv as well.
            for mm in ((client.JUDGE[gv], '3.8') if client.JUDGE[gv] in ('3.6', '3.7') else (client.JUDGE[gv],)):
                o = client.oracle(mm)
                if o is None:
                    return Outcome(excluded='interpreter %s not installed' % mm)
                if not o.ask(op='compile', src=code).get('ok'):
                    return Outcome(excluded='CPython %s rejects (cross-grammar case)' % mm)
        g = grammar(gv)
        maybe_disturb(g, code, gv)      # process history: an unfinished earlier call must not matter
        try:
            m = g.parse(code)
        except RecursionError:
            return Outcome(excluded='recursion-limit')
        if has_error(m):
            return Outcome(excluded='parso has error nodes (outside the statement)')
        try:
            h = case_int(code, gv, 'c14')
            if h % 4 == 0:
                # the same questions asked before, but interrupted at the n-th library line: the tree is used again afterwards
                try:
                    aborted(lambda: compare(code, m, facts), 3 + (h >> 4) % 600)
                except Skip:
                    pass
            fail, info = compare(code, m, facts)
        except Skip as e:
            return Outcome(excluded='skipped: %s' % e)
        except RecursionError:
            return Outcome(excluded='recursion-limit')
        except Exception as e:
            import traceback
            tb = traceback.extract_tb(e.__traceback__)
            if any('/parso/' in f.filename for f in tb[-3:]):
                return Outcome(fail=crash_signature(e), nontrivial=True, key=digest(code))
            raise
        if fail is not None and gv != PYV:
            fail = (fail[0], 'grammar %s: %s' % (gv, fail[1]))
        feats = set(info['feats'])
        feats.add('grammar' + gv)
        if ':=' in code:
            feats.add('walrus')
        if '*' in code and '=' in code:
            feats.add('maybe-star-target')
        return Outcome(fail=fail, nontrivial=bool(feats - {'grammar' + gv}), classes=sorted(feats), key=digest(code + gv),
                       units=info['definitions'] + info['functions'] + info['imports'] + 1)

    def sample_repr(self, case):
        return {'grammar': case.get('gv', PYV), 'code': short(case['code'], 240)}


PROP = C14()
