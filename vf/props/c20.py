"""C20 — the PEP 8 checker never fails; issues well-formed and stable (DESIGN §2 C20)."""
import pickle
from pathlib import Path

from hypothesis import strategies as st

from parso import cache as pcache
from parso.python.pep8 import PEP8NormalizerConfig

from ..common import maybe_disturb, crash_signature, digest, first_tree_diff, grammar, has_error, ref_split_lines, short, tree_sig
from ..engine import Outcome, Prop
from ..gen import text as T

CONFIGS = [None, ('    ', 79, 2), ('  ', 79, 2), ('\t', 79, 2), ('    ', 20, 2), ('    ', 120, 1), ('  ', 20, 1)]


_config_objects = {}


def make_config(c):
    """One config object per configuration for the whole process: callers normally keep theirs, and a memo keyed by the
    config object's identity would otherwise never be exercised."""
    if c is None:
        return None
    o = _config_objects.get(c)
    if o is None:
        o = _config_objects[c] = PEP8NormalizerConfig(indentation=c[0], max_characters=c[1], spaces_before_comment=c[2])
    return o


def ituple(i):
    return (i.code, i.message, tuple(i.start_pos), tuple(i.end_pos))


def diff_parse(g, texts, key, after_each=None):
    """Parse the history ``texts`` incrementally under a private path key; returns the last module.
    ``after_each(module)`` is called after every step (e.g. to list issues of the intermediate states too)."""
    path = Path('/nonexistent/vf-%s.py' % key)
    m = None
    try:
        for t in texts:
            m = g.parse(t, diff_cache=True, path=path)
            if after_each is not None:
                try:
                    after_each(m)
                except Exception:
                    pass
    finally:
        pcache.parser_cache.get(g._hashed, {}).pop(path, None)
    return m


def issues_of(g, m, cfg):
    return list(g._get_normalizer_issues(m, make_config(cfg)))


def wellformed(m, issues):
    seen = set()
    end = tuple(m.end_pos)
    for i in issues:
        if not isinstance(i.code, int) or isinstance(i.code, bool) or not isinstance(i.message, str):
            return ('issue-malformed', 'code %r message %r' % (i.code, i.message))
        s, e = tuple(i.start_pos), tuple(i.end_pos)
        if s[1] < 0 or e[1] < 0:
            return ('issue-negative-column', 'code %r at %r..%r' % (i.code, s, e))
        if not ((1, 0) <= s <= e <= end):
            return ('issue-range', 'code %r at %r..%r, file ends %r' % (i.code, s, e, end))
        if (i.code, s) in seen:
            return ('issue-duplicate', 'code %r at %r twice' % (i.code, s))
        seen.add((i.code, s))
    return None


class C20(Prop):
    id = 'C20'
    rule = ('Generated: trees from adversarial texts, mutated real code, nesting builders x 9 versions x 7 checker configurations '
            '(indentation, max_characters, spaces_before_comment); provenance: the same final text parsed fresh, reached through a '
            '2-3 step diff_cache history, and through pickle. Oracle: _get_normalizer_issues does not raise, tree signature unchanged, '
            'int code / str message, (1,0)<=start<=end<=module end, columns >=0, no (code,start) twice, second call identical, the three '
            'provenances give identical lists (only when the trees are structurally equal), and on error-free trees code 292 present '
            '<=> text does not end in \\n/\\r. Crashes are bucketed by (exception type, innermost parso function). '
            'Non-trivial: >=1 issue reported or the tree has a bracket/backslash continuation line.')
    assumptions = ['crash buckets listed in known_findings.json are carried as findings; any other bucket is a violation']
    budgets = {'quick': 48000, 'thorough': 1800000}

    def strategy(self, tier):
        kinds = ('repo',) if tier == 'quick' else ('repo', 'stdlib3.12')
        w = {'stmt': 6, 'layout': 8, 'comment': 3, 'op': 6}
        text = st.one_of(T.adversarial_text(max_frags=20, corpus_kinds=kinds, weights=w, nest_depth=25),
                         T.adversarial_text(max_frags=20, corpus_kinds=kinds, weights=w, nest_depth=25),
                         T.derived_text(), T.derived_text())      # grammatical programs reach the style rules' deep branches
        return st.fixed_dictionaries({
            'code': text, 'version': T.version(), 'config': st.sampled_from(CONFIGS),
            'history': st.lists(st.tuples(st.sampled_from(['delline', 'dupline', 'ins', 'del']), st.integers(0, 10 ** 6),
                                          T.fragment(w)), min_size=0, max_size=2)})

    def check(self, case):
        code, v, cfg = case['code'], case['version'], case['config']
        if cfg is not None:
            cfg = tuple(cfg)
        g = grammar(v)
        maybe_disturb(g, code, v)      # process history: an unfinished earlier call must not matter
        try:
            m = g.parse(code)
        except RecursionError:
            return Outcome(excluded='recursion-limit')
        except Exception as e:
            return Outcome(fail=crash_signature(e), nontrivial=True, key=digest(code, v))
        before = tree_sig(m)
        err = has_error(m)
        classes = []
        fail = None
        issues = None
        try:
            issues = issues_of(g, m, cfg)
        except RecursionError:
            return Outcome(excluded='recursion-limit')
        except Exception as e:
            fail = crash_signature(e)
            classes.append('crash')
        if fail is None:
            if tree_sig(m) != before:
                fail = ('tree-modified', '')
            else:
                fail = wellformed(m, issues)
        if fail is None:
            try:
                again = issues_of(g, m, cfg)
                if [ituple(i) for i in again] != [ituple(i) for i in issues]:
                    fail = ('nondeterministic', '%r vs %r' % ([ituple(i) for i in issues][:6], [ituple(i) for i in again][:6]))
            except Exception as e:
                sig, det = crash_signature(e)
                fail = ('second-call-' + sig, det)
        if fail is None and not err:
            has292 = any(i.code == 292 for i in issues)
            want = not (code.endswith('\n') or code.endswith('\r'))
            if has292 != want:
                fail = ('w292-newline-at-eof', 'code 292 reported=%r, text ends with line break=%r' % (has292, not want))
        if fail is None:
            # provenance: pickle
            try:
                mp = pickle.loads(pickle.dumps(m))
                ip = issues_of(g, mp, cfg)
                if [ituple(i) for i in ip] != [ituple(i) for i in issues]:
                    fail = ('provenance-pickle', '%r vs %r' % ([ituple(i) for i in issues][:6], [ituple(i) for i in ip][:6]))
            except RecursionError:
                pass
            except Exception as e:
                sig, det = crash_signature(e)
                fail = ('provenance-pickle-' + sig, det)
        if fail is None:
            # provenance: diff_cache history ending in ``code``
            lines = ref_split_lines(code, True)
            texts = []
            cur = list(lines)
            for op, k, frag in case['history']:
                if op == 'delline' and len(cur) > 1:
                    del cur[k % len(cur)]
                elif op == 'dupline':
                    cur.insert(k % (len(cur) + 1), cur[k % len(cur)])
                elif op == 'ins':
                    i = k % len(cur)
                    c = (k // 7) % (len(cur[i]) + 1)
                    cur[i] = cur[i][:c] + frag + cur[i][c:]
                else:
                    i = k % len(cur)
                    c = (k // 7) % (len(cur[i]) + 1)
                    cur[i] = cur[i][:c] + cur[i][c + 3:]
                texts.append(''.join(cur))
            texts.reverse()
            texts.append(code)
            try:
                # issues are also listed on every intermediate state (same module object, same config object)
                md = diff_parse(g, texts, digest(code, v).hex(), after_each=lambda mod: issues_of(g, mod, cfg))
                if first_tree_diff(m, md) is None:
                    classes.append('diff-provenance-compared')
                    idf = issues_of(g, md, cfg)
                    if [ituple(i) for i in idf] != [ituple(i) for i in issues]:
                        fail = ('provenance-diff-cache', '%r vs %r' % ([ituple(i) for i in issues][:6], [ituple(i) for i in idf][:6]))
                else:
                    classes.append('diff-tree-differs(C04)')
            except RecursionError:
                pass
            except Exception as e:
                classes.append('diff-parser-raised(C04)')
        cont = False
        if issues:
            classes.append('has-issues')
        if '\\\n' in code or '\\\r' in code:
            cont = True
        else:
            depth = 0
            for ch in code:
                if ch in '([{':
                    depth += 1
                elif ch in ')]}':
                    depth = max(0, depth - 1)
                elif ch in '\r\n' and depth:
                    cont = True
                    break
        if cont:
            classes.append('continuation-line')
        if err:
            classes.append('error-node')
        return Outcome(fail=fail, nontrivial=bool(issues) or cont, classes=classes, key=digest(code, v, cfg))

    def shrink_extra(self, case, fails):
        c = dict(case)
        for k, v in (('history', []), ('config', None), ('version', '3.12')):
            if c.get(k) != v:
                c2 = dict(c)
                c2[k] = v
                if fails(c2):
                    c = c2
        return c

    def sample_repr(self, case):
        d = dict(case)
        d['code'] = short(case['code'], 200)
        return d


PROP = C20()
