"""C10 — tokenization of valid programs matches CPython's tokenizer (DESIGN §2 C10)."""
import re

from hypothesis import strategies as st

from parso.python.tokenize import tokenize
from parso.utils import parse_version_string

from ..common import VERSIONS, case_int, crash_signature, digest, disturb, grammar, ref_split_lines, short
from ..engine import Outcome, Prop
from ..gen import text as T
from ..gen import valid as V
from ..oracle import client

FF_INDENT = re.compile(r'(?:^|[\r\n])[ \t]*\f')


def parso_sig(src, v):
    """[(kind, text, start, prefix_span)] of significant tokens; an f-string folded into one STRING."""
    vi = parse_version_string(v)
    out = []
    depth = 0
    start = None
    buf = ''
    prefixes = []      # (offset_start, offset_end) of each prefix in the source, for the comment/NL clause
    off = 0
    for t in tokenize(src, version_info=vi):
        n = t.type.name
        pstart = off
        off += len(t.prefix)
        prefixes.append((pstart, off))
        off += len(t.string)
        if depth:
            buf += t.prefix + t.string
            if n == 'FSTRING_START':
                depth += 1
            elif n == 'FSTRING_END':
                depth -= 1
                if depth == 0:
                    out.append(('STRING', buf, start))
                    buf = ''
            continue
        if n == 'FSTRING_START':
            depth = 1
            start = t.start_pos
            buf = t.string
            continue
        if n in ('INDENT', 'DEDENT', 'ENDMARKER'):
            out.append((n, '', t.start_pos[0] if n == 'INDENT' else None))
        else:
            out.append((n, t.string, t.start_pos))
    return out, prefixes


def cpython_sig(toks, src):
    lines = ref_split_lines(src, True)
    out = []
    depth = 0
    layout = []     # (kind, (line, col)) of COMMENT / NL tokens
    open_indents = []     # one flag per open reference INDENT: True = artefact of an empty logical line (dropped)
    start = None
    line_has_token = False

    def text(s, e):
        (l1, c1), (l2, c2) = s, e
        if l1 == l2:
            return lines[l1 - 1][c1:c2]
        return lines[l1 - 1][c1:] + ''.join(lines[l1:l2 - 1]) + lines[l2 - 1][:c2]
    for n, s, l1, c1, l2, c2 in toks:
        if depth:
            if n == 'FSTRING_START':
                depth += 1
            elif n == 'FSTRING_END':
                depth -= 1
                if depth == 0:
                    out.append(('STRING', text(start, (l2, c2)), start))
            continue
        if n == 'FSTRING_START':
            depth = 1
            start = (l1, c1)
            line_has_token = True
            continue
        if n in ('COMMENT', 'NL'):
            layout.append((n, s, (l1, c1)))
            continue
        if n == 'ENCODING':
            continue
        if n == 'NEWLINE' and s == '':
            continue
        if n == 'NEWLINE' and not line_has_token:
            # the pure-Python tokenizer emits NEWLINE for an *empty* logical line (a lone backslash continuation followed by
            # a blank line: '\\\n\n'); it terminates nothing, so it is layout like NL and only has to lie inside a prefix
            layout.append(('NL', s, (l1, c1)))
            continue
        if n == 'NEWLINE':
            line_has_token = False
        elif n not in ('INDENT', 'DEDENT', 'ENDMARKER'):
            line_has_token = True
        if n in ('ASYNC', 'AWAIT'):
            n = 'NAME'
        if n == 'INDENT':
            if out and out[-1][0] == 'INDENT':
                # Two INDENTs with nothing between them cannot occur in a program the compiler accepts (an INDENT is followed by a
                # statement): the first one belongs to an empty logical line (' \\\n\n  s' - a physical line that holds only a
                # backslash continuation, then a blank line) of the pure-Python reference tokenizer.  It is dropped together with
                # its DEDENT.
                out.pop()
                open_indents[-1] = True
            open_indents.append(False)
        if n == 'DEDENT':
            if open_indents and open_indents.pop():
                continue
            if out and out[-1][0] == 'INDENT':
                out.pop()          # INDENT/DEDENT around an empty logical line (' \\\n\n'): same artefact
                continue
        if n in ('INDENT', 'DEDENT', 'ENDMARKER'):
            out.append((n, '', l1 if n == 'INDENT' else None))
        else:
            out.append((n, s, (l1, c1)))
    # An INDENT of the reference belongs to the logical line whose first token follows it.  Normally that is the INDENT's own line;
    # when the indented physical line holds nothing but a backslash continuation and is followed by a blank line (' \\\n\n def ...'),
    # the reference puts the INDENT on that empty logical line - the same artefact as the NEWLINE / INDENT-DEDENT cases above.
    for i, t in enumerate(out):
        if t[0] == 'INDENT':
            for u in out[i + 1:]:
                if isinstance(u[2], tuple):
                    out[i] = ('INDENT', '', u[2][0])
                    break
    return out, layout


LONE_CONT = re.compile(r'(?m)^[ \t\f]*\\\r?\n')
_FPRE = re.compile(r'''(?i)^(?:rf|fr|f)(\'\'\'|"""|\'|")''')


def pep701_only(tok_text):
    """True for a (folded) f-string token that only the PEP 701 tokenizer of CPython >= 3.12 accepts as one string: its own
    quote reused inside a replacement field, or a line break inside a single-quoted f-string that is not a backslash
    continuation.  parso does not implement this part of PEP 701 (listed finding F-C10-2)."""
    m = _FPRE.match(tok_text)
    if not m:
        return False
    q = m.group(1)
    body = tok_text[m.end():-len(q)] if tok_text.endswith(q) and len(tok_text) >= m.end() + len(q) else tok_text[m.end():]
    plain = re.sub(r'\\(?:\r\n|.)', '', body, flags=re.S)        # escapes and backslash continuations removed
    if q in plain:
        return True
    return len(q) == 1 and ('\n' in plain or '\r' in plain)


def self_consistent(toks, src):
    """every CPython token string equals the source slice at its coordinates (drops unreliable oracle output)"""
    lines = ref_split_lines(src, True) + ['']
    for n, s, l1, c1, l2, c2 in toks:
        if n in ('INDENT', 'DEDENT', 'ENDMARKER', 'ENCODING') or (n in ('NEWLINE', 'NL') and s == ''):
            continue
        if l1 > len(lines) or l2 > len(lines):
            return False
        if l1 == l2:
            if lines[l1 - 1][c1:c2] != s:
                return False
        else:
            got = lines[l1 - 1][c1:] + ''.join(lines[l1:l2 - 1]) + lines[l2 - 1][:c2]
            if got != s:
                return False
    return True


def offset_of(src_lines_offsets, pos):
    return src_lines_offsets[pos[0] - 1] + pos[1]


class C10(Prop):
    id = 'C10'
    rule = ('Generated: statement-aligned windows of real code (repo + CPython stdlib), token-level mutations of them, a hand-written '
            'lexically rich program generator (all number/string/f-string spellings, every operator, continuation lines, comments, '
            'mixed indentation units) x interpreters 3.6-3.13 (3.14 judged by 3.13). Domain: CPython V compile() succeeds AND its '
            'tokenize finishes without ERRORTOKEN AND every CPython token equals the source slice at its coordinates (others counted as '
            'excluded). Oracle: equal sequences of significant tokens (f-string folded to one STRING, ASYNC/AWAIT->NAME): type and text '
            'for NAME/NUMBER/STRING/OP/NEWLINE, (line, col) start (col only when the line prefix is ASCII), type for DEDENT/ENDMARKER, '
            'type+line for INDENT; each CPython COMMENT/NL lies inside a parso prefix. Non-trivial: >=3 token kinds besides '
            'NAME/OP/NEWLINE, or an f-string, or INDENT. Distinct by (text, version).')
    assumptions = ['the pyenv CPython interpreters are the reference; a missing interpreter is recorded as not explored',
                   'form feed in the indentation of a logical line is a listed finding (F-C10-1) and excluded by construction',
                   'f-strings that only the PEP 701 tokenizer accepts as one token (own quote reused in a field, line break in a single-quoted f-string) are a listed finding (F-C10-2): counted, signature-matched']
    budgets = {'quick': 16000, 'thorough': 1200000}
    min_nontrivial_fraction = 0.05

    def setup_shard(self, tier, seed, shard):
        pass

    def teardown_shard(self):
        client.close_all()

    def strategy(self, tier):
        kinds = ('repo', 'stdlib3.12') if tier == 'quick' else ('repo', 'stdlib3.12', 'stdlib3.8')
        return V.versioned_candidates(kinds)

    def enumerate(self, tier, seed):
        # whole stdlib files of each interpreter (thorough), a rotating sample (quick)
        for vi, v in enumerate(VERSIONS):
            mm = client.JUDGE[v]
            files = T.corpus_files('stdlib' + mm)
            if not files:
                continue
            step = 120 if tier == 'quick' else 3
            for f in files[(seed + vi) % step::step]:
                code = T.read_text(f)
                if len(code) < 200000:
                    yield {'code': code, 'version': v}

    def check(self, case):
        code, v = case['code'], case['version']
        o = client.oracle(client.JUDGE[v])
        if o is None:
            return Outcome(excluded='interpreter %s not installed' % client.JUDGE[v])
        if '\x00' in code:
            return Outcome(excluded='NUL byte')
        r = o.ask(op='both', src=code)
        if not r.get('ok'):
            return Outcome(excluded='reference rejects (compile)')
        if 'error' in r or any(t[0] == 'ERRORTOKEN' for t in r['tokens']):
            return Outcome(excluded='reference tokenize error/ERRORTOKEN')
        if not self_consistent(r['tokens'], code):
            return Outcome(excluded='reference token stream not self-consistent')
        if client.JUDGE[v] not in ('3.12', '3.13') and LONE_CONT.search(code):
            # Up to 3.11 the tokenize module is a pure-Python re-implementation; for a physical line that holds nothing but a backslash
            # continuation it disagrees with the tokenizer the compiler uses (it measures indentation on that line:
            # 'while x:\n while x:\n\\\n    s' compiles, but tokenize puts `s` at top level).  From 3.12 on tokenize *is* the C
            # tokenizer, so the layout is still explored there.
            return Outcome(excluded='lone continuation line and a pure-Python reference tokenizer (<= 3.11)')
        trigger = FF_INDENT.search(code) is not None
        try:
            if len(code) % 2:
                disturb(grammar(v), case_int(code, v), code)      # process history: an earlier abandoned / aborted call (common.disturb)
            a, prefixes = parso_sig(code, v)
        except RecursionError:
            return Outcome(excluded='recursion-limit')
        except Exception as e:
            return Outcome(fail=crash_signature(e), nontrivial=True, key=digest(code, v))
        b, layout = cpython_sig(r['tokens'], code)
        pep701 = client.JUDGE[v] in ('3.12', '3.13') and any(t[0] == 'STRING' and pep701_only(t[1]) for t in b)
        lines = ref_split_lines(code, True)
        fail = None
        for i, (x, y) in enumerate(zip(a, b)):
            if x[0] != y[0] or x[1] != y[1]:
                fail = ('token-differs', 'token %d: parso %r, CPython %r' % (i, x, y))
                break
            if x[2] != y[2]:
                if isinstance(x[2], tuple) and isinstance(y[2], tuple) and x[2][0] == y[2][0] \
                        and not lines[x[2][0] - 1][:max(x[2][1], y[2][1])].isascii():
                    continue       # columns compared only on ASCII line prefixes
                fail = ('token-position-differs', 'token %d: parso %r, CPython %r' % (i, x, y))
                break
        if fail is None and len(a) != len(b):
            fail = ('token-count-differs', 'parso %d tokens, CPython %d; tails %r vs %r' % (len(a), len(b), a[-3:], b[-3:]))
        if fail is None:
            offs = [0]
            for l in lines:
                offs.append(offs[-1] + len(l))
            spans = prefixes
            for kind, s, pos in layout:
                if pos[0] - 1 >= len(lines):
                    continue
                if not lines[pos[0] - 1][:pos[1]].isascii():
                    continue
                o1 = offs[pos[0] - 1] + pos[1]
                o2 = o1 + len(s)
                if not any(ps <= o1 and o2 <= pe for ps, pe in spans):
                    fail = ('layout-token-not-in-prefix', 'CPython %s %r at %r is not inside a parso prefix' % (kind, s, pos))
                    break
        if fail is not None and trigger:
            fail = (fail[0] + '+formfeed-in-indentation', fail[1])
        elif fail is not None and pep701:
            fail = ('token-differs+pep701-fstring', fail[1])
        kinds = {x[0] for x in a}
        classes = []
        if any(x[0] == 'STRING' and re.match(r'(?i)[rb]?f', x[1]) for x in a):
            classes.append('fstring')
        if 'INDENT' in kinds:
            classes.append('indent')
        if len(kinds - {'NAME', 'OP', 'NEWLINE', 'ENDMARKER', 'DEDENT'}) >= 3:
            classes.append('>=3-kinds')
        if not code.isascii():
            classes.append('non-ascii')
        classes.append('py' + client.JUDGE[v])
        return Outcome(fail=fail, nontrivial=bool(set(classes) & {'fstring', 'indent', '>=3-kinds'}), classes=classes,
                       excluded=('F-C10-1 trigger present (form feed in indentation)' if trigger else
                                 'F-C10-2 trigger present (PEP 701-only f-string)' if pep701 else None),
                       key=digest(code, v), units=len(a))

    def sample_repr(self, case):
        return {'code': short(case['code'], 200), 'version': case['version']}


PROP = C10()
