"""C05 — trees conform to the grammar; errors confined to error nodes (DESIGN §2 C05)."""
import os

from hypothesis import strategies as st

from ..common import delete_block, maybe_disturb, tree_via, REPO, crash_signature, digest, grammar, has_error, is_zero_width, nodes_preorder, short
from ..engine import Outcome, Prop
from ..gen import text as T
from ..model.conform import Conf

_confs = {}


def conf(v):
    c = _confs.get(v)
    if c is None:
        vi = grammar(v).version_info
        with open(os.path.join(REPO, 'parso', 'python', 'grammar%d%d.txt' % (vi.major, vi.minor))) as f:
            c = _confs[v] = Conf(f.read())
    return c


class _Pseudo:
    """Virtual child (INDENT / DEDENT / NEWLINE re-inserted by a documented convention)."""
    type = 'pseudo'

    def __init__(self, sym):
        self.sym = sym


def is_err(c):
    return c.type in ('error_node', 'error_leaf')


def flatten_params(children):
    out = []
    for c in children:
        if c.type == 'param':
            out += c.children
        else:
            out.append(c)
    return out


def at_block_or_file_end(c):
    """``c`` lacks its NEWLINE legitimately: it is the last thing of its enclosing block or of the file."""
    last = c.get_last_leaf()
    if last.type == 'newline':
        return False
    nl = last.get_next_leaf()
    while nl is not None and is_zero_width(nl):
        nl = nl.get_next_leaf()
    if nl is not None and nl.type == 'endmarker':
        return True
    # last leaf of the nearest suite ancestor
    p = c.parent
    while p is not None and p.type != 'suite':
        p = p.parent
    if p is None:
        return False
    pl = p.get_last_leaf()
    while pl is not None and is_zero_width(pl) and pl is not last:
        pl = pl.get_previous_leaf()
    return pl is last


def stmt_standins(cf, ch, extra, sym):
    """A small_stmt that collapsed out of its simple_stmt because the NEWLINE is absent at block/file end."""
    for c in ch:
        if is_err(c) or isinstance(c, _Pseudo):
            continue
        if c.type != 'simple_stmt' and cf.sym_matches('small_stmt', c) and at_block_or_file_end(c):
            extra[id(c)] = sym


def check_node(cf, node):
    t = node.type
    ch = list(node.children)
    if not ch:
        return 'empty-node', 'node %s has no children' % t
    if t == 'error_node':
        return None
    pseudo = {}
    extra = {}
    if t == 'param':
        return None          # grouping node; its content is checked through parameters/lambdef
    if t == 'file_input':
        ch = [c for c in ch if not is_err(c)]
        stmt_standins(cf, ch, extra, 'stmt')
        if cf.accepts('file_input', ch, pseudo, extra):
            return None
        return 'node-not-a-sentence:file_input', 'children %r' % [c.type for c in node.children][:30]
    if t == 'suite':
        for c in ch:
            if is_err(c):
                pseudo[id(c)] = 'stmt'
        I, D = _Pseudo('INDENT'), _Pseudo('DEDENT')
        pseudo[id(I)] = 'INDENT'
        pseudo[id(D)] = 'DEDENT'
        stmt_standins(cf, ch, extra, 'stmt')
        ch2 = [ch[0], I] + ch[1:] + [D]
        if cf.accepts('suite', ch2, pseudo, extra):
            return None
        return 'node-not-a-sentence:suite', 'children %r' % [c.type for c in node.children][:30]
    if t not in cf.nfa:
        kw = t[:-5] if t.endswith('_stmt') else None
        return 'unknown-node-type', 'type %r is not a rule of the grammar' % t
    if t == 'parameters':
        ch = flatten_params(ch)
        if ch[0] != '(' or ch[-1] != ')':
            return 'node-not-a-sentence:parameters', 'brackets'
        inner = ch[1:-1]
        if any(is_err(c) for c in inner):
            return 'error-inside-node', 'error node/leaf inside parameters'
        if inner and not cf.accepts('typedargslist', inner):
            return 'node-not-a-sentence:parameters', 'inner %r' % [getattr(c, 'value', c.type) for c in inner]
        return None
    if t == 'lambdef':
        ch = flatten_params(ch)
        if len(ch) < 3 or ch[0] != 'lambda' or ch[-2] != ':':
            return 'node-not-a-sentence:lambdef', 'shape %r' % [getattr(c, 'value', c.type) for c in ch]
        inner = ch[1:-2]
        if any(is_err(c) for c in ch):
            return 'error-inside-node', 'error node/leaf inside lambdef'
        if inner and not cf.accepts('varargslist', inner):
            return 'node-not-a-sentence:lambdef', 'params %r' % [getattr(c, 'value', c.type) for c in inner]
        if not (cf.sym_matches('test', ch[-1]) or ('test_nocond' in cf.nfa and cf.sym_matches('test_nocond', ch[-1]))):
            return 'node-not-a-sentence:lambdef', 'body %r' % ch[-1].type
        return None
    # error nodes/leaves may stand only where a block (suite) is expected
    for c in ch:
        if is_err(c):
            pseudo[id(c)] = 'suite'
    stmt_standins(cf, ch, extra, 'suite')
    if t == 'simple_stmt' and ch[-1].type != 'newline':
        if not at_block_or_file_end(node):
            return 'simple-stmt-without-newline-inside-block', 'at %r' % (node.start_pos,)
        N = _Pseudo('NEWLINE')
        pseudo[id(N)] = 'NEWLINE'
        ch = ch + [N]
    if cf.accepts(t, ch, pseudo, extra):
        return None
    if any(is_err(c) for c in ch):
        return 'error-inside-node', '%s with children %r' % (t, [c.type for c in node.children][:30])
    return 'node-not-a-sentence:' + t, 'children %r' % [getattr(c, 'value', None) or c.type for c in node.children][:30]


def check_tree(cf, m):
    """Returns (fail, nodes_checked, shapes)."""
    n_checked = 0
    shapes = set()
    stack = [m]
    while stack:
        n = stack.pop()
        ch = getattr(n, 'children', None)
        if ch is None:
            continue
        if n.type == 'error_node':
            continue           # not descended into: content of error nodes is unconstrained
        n_checked += 1
        r = check_node(cf, n)
        if r:
            return r, n_checked, shapes
        if len(ch) >= 2:
            shapes.add((n.type, tuple(c.type for c in ch)))
        stack.extend(ch)
    return None, n_checked, shapes


class C05(Prop):
    id = 'C05'
    rule = ('Generated: adversarial texts, mutated real code, nesting builders x 9 grammars x tree provenance {fresh parse; assembled by the diff parser from a line-edited earlier text, or from the drawn text after the block below one of its lines was deleted; unpickled}; EVERY non-error node of every tree is '
            'one elementary check. Oracle (vf/model/conform.py, built from the grammar text by the independent EBNF reader): node '
            'type is a rule of the version and its child sequence is accepted by the rule NFA where a child matches a symbol through '
            'the unit-chain closure; conventions exactly as stated: single-child collapse, virtual INDENT/DEDENT in suite, param '
            'grouping (inner sequence must be a typedargslist/varargslist sentence), final NEWLINE absent only at the end of the file '
            'or enclosing block; error nodes/leaves only as a statement of file_input/suite or in place of a suite. Non-trivial: tree '
            'has >=1 error node/leaf and >=1 non-error node with >=2 children; distinct by (text, version); evidence also counts '
            'distinct (rule, child-type tuple) shapes.')
    budgets = {'quick': 20000, 'thorough': 2400000}

    def strategy(self, tier):
        kinds = ('repo',) if tier == 'quick' else ('repo', 'stdlib3.12')
        w = {'stmt': 8, 'kw': 4, 'op': 6}
        return st.fixed_dictionaries({'code': T.adversarial_text(corpus_kinds=kinds, weights=w, nest_depth=30), 'version': T.version(),
                                      'prov': st.sampled_from(['fresh', 'fresh', 'diffed', 'diffed', 'unpickled']), 'how': st.integers(0, 10 ** 4)})

    def check(self, case):
        code, v = case['code'], case['version']
        try:
            maybe_disturb(grammar(v), code, v)      # process history: an unfinished earlier call must not matter
            # every tree the parser hands out has to conform - also one that the diff parser assembled from copied and re-parsed
            # parts (used even where it differs from the fresh tree: that difference is C04's subject, conformance is this one's)
            prov = case.get('prov', 'fresh')
            how = case.get('how', 0)
            if prov == 'diffed' and how % 3 == 0:
                # the drawn text is the EARLIER state; the judged text is what is left when the body below one of its lines is
                # deleted (a header that lost its block, the next line dedented)
                shorter = delete_block(code, how // 3)
                if shorter is not None:
                    from .c20 import diff_parse
                    m = diff_parse(grammar(v), [code, shorter], digest(code, v, 'c05b').hex())
                    code, prov = shorter, 'diffed(block-deleted)'
                    if m.get_code() != code:
                        m, prov = grammar(v).parse(code), 'fresh(diff-fallback)'
                else:
                    prov = 'fresh'
            if not prov.startswith('diffed('):
                m, prov = tree_via(grammar(v), code, prov, how, digest(code, v, 'c05').hex(),
                                   lambda mod, text: None, same_shape_only=False)
            if m.get_code() != code:
                m, prov = grammar(v).parse(code), 'fresh(diff-fallback)'
            fail, n, shapes = check_tree(conf(v), m)
            if fail is not None and prov != 'fresh':
                fail = (fail[0], 'tree provenance %s: %s' % (prov, fail[1]))
        except RecursionError:
            return Outcome(excluded='recursion-limit')
        except Exception as e:
            return Outcome(fail=crash_signature(e), nontrivial=True, key=digest(code, v))
        err = has_error(m)
        self._shapes = getattr(self, '_shapes', set())
        self._shapes.update((v,) + s for s in shapes)
        classes = (['error-node'] if err else ['clean']) + ['tree:' + prov]
        return Outcome(fail=fail, nontrivial=err and bool(shapes), classes=classes, key=digest(code, v, prov), units=max(1, n))

    def sample_repr(self, case):
        return {'code': short(case['code'], 200), 'version': case['version']}


PROP = C05()
