"""C15 — source decoding and line splitting (DESIGN §2 C15)."""
import io
import tokenize

from hypothesis import strategies as st

import parso
from parso.utils import python_bytes_to_unicode, split_lines

from ..common import BOM, crash_signature, digest, grammar, ref_split_lines, short
from ..engine import Outcome, Prop

CODECS = ['iso-latin-1', 'ISO_LATIN_1', 'latin_1', 'iso_8859_1', 'iso-8859-15', 'iso-8859-10', 'ISO_8859_16', 'latin-1-dos', 'utf-8', 'latin-1', 'iso-8859-15', 'cp1252', 'ascii', 'utf8', 'UTF_8', 'Latin1', 'iso-latin-1-unix', 'utf-8-unix', 'cp437',
          'koi8-r', 'shift_jis', 'euc-jp', 'utf-16', 'mac-roman', 'foo-8', 'utf-8-sig', 'idna', 'hex', 'l1', 'u8']


def _all_codec_names():
    """Every codec name and alias the running interpreter knows, in the spellings a declaration may use (underscores or hyphens),
    sorted: neighbours in this list share long prefixes — the shapes that a truncating / normalising lookup could confuse."""
    import encodings.aliases
    import pkgutil
    names = set(encodings.aliases.aliases) | set(encodings.aliases.aliases.values())
    names |= {m.name for m in pkgutil.iter_modules(encodings.__path__) if m.name not in ('aliases',)}
    names |= {n.replace('_', '-') for n in names}
    return sorted(n for n in names if n.isascii() and n)


ALL_CODECS = _all_codec_names()
LONG_CODECS = [n for n in ALL_CODECS if len(n) >= 12]
DECL = ['# -*- coding: %s -*-', '# coding=%s', '#coding:%s', '# vim: set fileencoding=%s :', '#!/usr/bin/python # coding: %s',
        '  # coding: %s', '\t#coding=%s', 'coding: %s', 'x = 1 # coding: %s', 'encoding=%s', '"""coding: %s"""', "s = 'coding=%s'",
        '# Coding: %s', '# coding : %s', '# coding:%s trailing', '#coding=%s#', '# -*- coding: %s; mode: python -*-', '# codingX: %s',
        '\f# coding: %s']
PLAIN = ['', 'x = 1', '# just a comment', '#!/usr/bin/env python', '   ', '"""doc"""', 'import os', '\f', '# coding', 'pass']
NEWLINES = ['\n', '\r\n', '\r', '\n', '\n']
TAIL_TEXT = ['¤', 'Š', 'é', 'ü = 1', '€', 'x', '日本', '"ñ"', '# ä', '\x85', '\u2028', 'я', 'λ', 'ש', 'ع', 'ก', '한', 'かナ', '㐂', '𠀋', '‰', 'ı', 'Ł',
             '─', '½', 'ﬁ', '\u3000', '№', '〒']


def codec_names(near=None):
    """A codec name: from the hand-picked pool (known/alias/unknown, editor suffixes) or any name Python knows; with ``near`` given,
    a *sibling* of that name (a neighbour in the sorted list of all names, or a case / separator variant of it)."""
    if near is None:
        return st.one_of(st.sampled_from(CODECS), st.sampled_from(ALL_CODECS))
    import bisect
    i = bisect.bisect_left(ALL_CODECS, near.lower().replace('-', '_'))
    lo, hi = max(0, i - 4), min(len(ALL_CODECS), i + 5)
    sib = ALL_CODECS[lo:hi] or ALL_CODECS[:3]
    return st.one_of(st.sampled_from(sib), st.sampled_from([near.upper(), near.lower(), near.replace('-', '_'), near.replace('_', '-'), near]),
                     # names Python does not know that share a long prefix with one it knows (editor suffixes, typos)
                     st.sampled_from([near + '-unix', near + '_dos', near + 'x', near[:12] + 'zz', near[:-1], near + '-', 'x' + near]))


@st.composite
def byte_source_histories(draw):
    """1-3 byte sources decoded one after the other in one process.  Half of the histories are built around one base codec name:
    every source declares the base or a *sibling* of it (neighbours in the sorted list, case / separator variants, names Python
    does not know that share a long prefix with it) - a lookup that is memoised, truncated, normalised too eagerly or remembers
    failures confuses exactly such names, in whichever order they come."""
    if draw(st.booleans()):
        base = draw(st.one_of(codec_names(), st.sampled_from(LONG_CODECS)))
        n = draw(st.sampled_from([2, 2, 3]))
        return [draw(byte_sources(near=base)) for _ in range(n)]
    first, codec = draw(byte_sources(with_codec=True))
    res = [first]
    for _ in range(draw(st.sampled_from([0, 0, 1, 1, 2]))):
        near = codec if draw(st.booleans()) else None
        b, c = draw(byte_sources(with_codec=True, near=near))
        res.append(b)
    return res


@st.composite
def byte_sources(draw, with_codec=False, near=None):
    parts = []
    if draw(st.integers(0, 4)) == 0:
        parts.append(b'\xef\xbb\xbf')
    codec = 'utf-8'
    nlines = draw(st.integers(0, 3))
    for i in range(nlines):
        kind = draw(st.integers(0, 2))
        if kind == 0:
            line = draw(st.sampled_from(PLAIN))
        else:
            c = draw(codec_names(near))
            line = draw(st.sampled_from(DECL if near is None else DECL[:7])) % c
            if i < 2 and codec == 'utf-8':
                codec = c
        nl = draw(st.sampled_from(NEWLINES))
        last = i == nlines - 1
        if last and draw(st.integers(0, 3)) == 0:
            nl = ''          # unterminated last line
        parts.append((line + nl).encode('ascii', 'replace'))
    # tail: text encoded in the drawn codec (when Python knows it), or in utf-8, or raw bytes
    tail = ''.join(draw(st.lists(st.sampled_from(TAIL_TEXT), max_size=3)))
    mode = draw(st.integers(0, 3))
    if mode == 0:
        tb = tail.encode('utf-8')
    elif mode == 1:
        try:
            tb = tail.encode(codec, 'ignore')
        except (LookupError, UnicodeError, ValueError, TypeError):
            tb = tail.encode('latin-1', 'ignore')
    elif mode == 2:
        tb = draw(st.binary(max_size=6))
    else:
        tb = b''
    parts.append(tb)
    if with_codec:
        return b''.join(parts), codec
    return b''.join(parts)


def _universal_readline(data):
    """readline as CPython's C tokenizer sees the file: \\n, \\r\\n and \\r all end a line."""
    pos = [0]

    def readline():
        i = pos[0]
        n = len(data)
        if i >= n:
            return b''
        j = i
        while j < n and data[j] not in (10, 13):
            j += 1
        if j < n:
            if data[j] == 13 and j + 1 < n and data[j + 1] == 10:
                j += 2
            else:
                j += 1
        pos[0] = j
        return data[i:j]
    return readline


def reference_decode(data):
    """What CPython does to a source file: None when it cannot determine the encoding or decode.
    tokenize.detect_encoding is fed lines split the way the C tokenizer splits them (universal newlines)."""
    try:
        enc, _ = tokenize.detect_encoding(_universal_readline(data))
    except (SyntaxError, LookupError, UnicodeError, ValueError):
        return None, None
    try:
        text = data.decode(enc)
    except (UnicodeError, LookupError, ValueError):
        return enc, None
    if enc == 'utf-8-sig':
        text = BOM + text       # CPython drops the BOM; parso keeps the character
    return enc, text


SEPS = ['\n', '\r', '\r\n', '\f', '\v', '\x1c', '\x1d', '\x1e', '\x85', ' ', ' ', ' ', 'a', 'b', '\\', '#', 'é', '\x00', '\t']


class C15(Prop):
    id = 'C15'
    rule = ('Generated (bytes): optional UTF-8 BOM + 0-3 first lines built from {plain line, 19 coding-declaration spellings incl. '
            'non-comment ones} x codec names (30 hand-picked known/alias/unknown/editor-suffixed ones, or any of the names and aliases the interpreter knows) x {LF, CRLF, CR, unterminated last line} + a tail encoded in the '
            'declared codec / UTF-8 / raw bytes; half of the byte cases are *histories* of 1-3 sources decoded one after the other in one process, the later ones declaring siblings (neighbours in the sorted name list, case/separator variants) of the codec declared first. Oracle: CPython tokenize.detect_encoding + bytes.decode of the running interpreter: '
            'whenever that succeeds python_bytes_to_unicode(b) returns the same text (plus the kept BOM) and parse(b).get_code() equals '
            'it; nothing asserted when CPython rejects. Generated (str): separator-heavy strings; oracle: character-scanning reference '
            'splitter for both keepends values, len>=1, join == input, len(split_lines(s)) == parse(s).end_pos[0]. Non-trivial: bytes '
            'with "coding" in the first two lines, a BOM or a non-UTF-8 byte; strings with a non-Python separator.')
    budgets = {'quick': 40000, 'thorough': 4000000}

    def strategy(self, tier):
        return st.one_of(
            byte_sources().map(lambda b: {'kind': 'bytes', 'hex': b.hex()}),
            byte_source_histories().map(lambda l: {'kind': 'bytes', 'hex': l[-1].hex(), 'before': [b.hex() for b in l[:-1]]}),
            st.lists(st.sampled_from(SEPS), max_size=14).map(lambda l: {'kind': 'str', 'text': ''.join(l)}),
            st.text(max_size=12).map(lambda s: {'kind': 'str', 'text': s}),
        )

    shrink_fields = ('text',)

    def shrink_extra(self, case, fails):
        if case['kind'] != 'bytes':
            return case
        data = bytes.fromhex(case['hex'])
        changed = True
        while changed and len(data) > 0:
            changed = False
            for n in (8, 4, 2, 1):
                i = 0
                while i < len(data):
                    cand = data[:i] + data[i + n:]
                    if fails(dict(case, hex=cand.hex())):
                        data = cand
                        changed = True
                    else:
                        i += n
        out = {'kind': 'bytes', 'hex': data.hex()}
        if case.get('before'):
            before = list(case['before'])
            for i in range(len(before) - 1, -1, -1):
                cand = dict(out, before=before[:i] + before[i + 1:])
                if fails(cand):
                    before = cand['before']
            if before:
                out['before'] = before
        return out

    def check(self, case):
        if case['kind'] == 'bytes':
            data = bytes.fromhex(case['hex'])
            for h in case.get('before', ()):
                # earlier decodings of the same process (history): their own correctness is judged where they are the last element
                try:
                    python_bytes_to_unicode(bytes.fromhex(h))
                except Exception:
                    pass
            enc, exp = reference_decode(data)
            first2 = b''.join(data.splitlines(True)[:2])
            nt = b'coding' in first2 or data.startswith(b'\xef\xbb\xbf')
            try:
                data.decode('utf-8')
            except UnicodeDecodeError:
                nt = True
            classes = ['bytes', 'declared:' + (enc or 'undeterminable')[:14]]
            if case.get('before'):
                classes.append('bytes-after-%d-earlier-decodings' % len(case['before']))
            if exp is None:
                return Outcome(excluded='CPython cannot determine the encoding or decode', classes=classes, nontrivial=False)
            fail = None
            try:
                got = python_bytes_to_unicode(data)
                if got != exp:
                    fail = ('decode-mismatch', 'bytes %r: CPython (%s) gives %s, parso gives %s' % (data[:80], enc, short(exp, 60), short(got, 60)))
            except Exception as e:
                fail = ('decode-raises:' + type(e).__name__, 'bytes %r: CPython decodes with %s, parso raises %s: %s'
                        % (data[:80], enc, type(e).__name__, str(e)[:100]))
            if fail is None:
                try:
                    code = grammar('3.12').parse(data).get_code()
                    if code != exp:
                        fail = ('parse-bytes-mismatch', 'bytes %r' % data[:80])
                except Exception as e:
                    fail = crash_signature(e)
            if fail is not None:
                # root-cause tags (three manifestations of one defect family, DESIGN §3 F-C15-1)
                lines = data.splitlines(True)
                import re
                tags = []
                m = re.search(br'coding[=:]\s*([-\w.]+)', first2)
                if m:
                    line_of = 0 if m.start() < len(lines[0]) else 1
                    l = lines[line_of]
                    if not re.match(br'[ \t\f]*#', l):
                        tags.append('declaration-not-in-a-comment')
                    elif line_of == 1 and not re.match(br'[ \t\f]*(?:#.*)?(?:\r?\n|\r)?$', lines[0]):
                        tags.append('second-line-after-code-line')
                if len(lines) <= 2 and lines and not lines[-1].endswith((b'\n', b'\r')) and re.search(br'coding[=:]', lines[-1]):
                    tags.append('unterminated-declaration-line')
                fail = (fail[0] + ''.join('+' + t for t in tags), fail[1])
            return Outcome(fail=fail, nontrivial=nt, classes=classes, key=digest(data))
        s = case['text']
        fail = None
        try:
            for keep in (True, False):
                got = split_lines(s, keepends=keep)
                exp = ref_split_lines(s, keep)
                if got == exp and len(s) % 2:
                    # the result belongs to the caller: whatever the caller does to it must not show in a later call
                    got.append('x')
                    got[0] = 'y'
                    got = split_lines(s, keepends=keep)
                if got != exp:
                    fail = ('split-lines', 'split_lines(%r, keepends=%r) = %r, reference %r' % (s, keep, got, exp))
                    break
                if len(got) < 1:
                    fail = ('split-lines-empty', repr(s))
                    break
            if fail is None and ''.join(split_lines(s, keepends=True)) != s:
                fail = ('split-lines-join', repr(s))
            if fail is None:
                end = parso.parse(s).end_pos
                if len(split_lines(s)) != end[0]:
                    fail = ('split-lines-vs-tree-line-count', '%r: %d lines, module ends on line %d' % (s, len(split_lines(s)), end[0]))
        except Exception as e:
            fail = crash_signature(e)
        nt = any(c in s for c in '\f\v\x1c\x1d\x1e\x85  ')
        return Outcome(fail=fail, nontrivial=nt, classes=['str'], key=digest(s))

    def sample_repr(self, case):
        if case['kind'] == 'bytes':
            return {'kind': 'bytes', 'bytes': repr(bytes.fromhex(case['hex']))[:200], 'decoded_before': [repr(bytes.fromhex(h))[:80] for h in case.get('before', ())]}
        return {'kind': 'str', 'text': short(case['text'], 100)}


PROP = C15()
