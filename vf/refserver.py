"""Pristine reference server for C18: imports parso from the repo, loads the grammars in canonical
order (or the reverse one, VERIF_REF_ORDER=reverse), then answers each call in a fork()ed child so that no call sees another call's state.
Protocol: one JSON list of calls per line on stdin -> one JSON list of results per line on stdout."""
import json
import os
import sys

REPO = os.environ.get('VERIF_REPO', '/repo')
sys.path.insert(0, REPO)
sys.path.insert(1, os.path.dirname(os.path.dirname(os.path.abspath(__file__))))
sys.dont_write_bytecode = True

import parso  # noqa: E402
from vf.calls import run_call  # noqa: E402

_ORDER = ['3.6', '3.7', '3.8', '3.9', '3.10', '3.11', '3.12', '3.13', '3.14']
if os.environ.get('VERIF_REF_ORDER') == 'reverse':
    _ORDER.reverse()        # a second reference with the opposite loading order: the two must agree with each other as well
for v in _ORDER:
    parso.load_grammar(version=v)


def in_child(call):
    r, w = os.pipe()
    pid = os.fork()
    if pid == 0:
        try:
            os.close(r)
            data = json.dumps(run_call(call)).encode('utf-8')
            with os.fdopen(w, 'wb') as f:
                f.write(data)
        finally:
            os._exit(0)
    os.close(w)
    with os.fdopen(r, 'rb') as f:
        data = f.read()
    os.waitpid(pid, 0)
    return json.loads(data.decode('utf-8')) if data else ['EXC', 'child-died']


for line in sys.stdin:
    calls = json.loads(line)
    if isinstance(calls, dict):
        # cheap mode for light cases: answered in this process without fork (this process only ever sees such single calls;
        # a difference is confirmed by the caller with the forking mode before it is reported)
        out = [run_call(c) for c in calls['nofork']]
    else:
        out = [in_child(c) for c in calls]
    sys.stdout.write(json.dumps(out) + '\n')
    sys.stdout.flush()
