"""Client for the CPython oracle servers (one subprocess per interpreter version, per process)."""
import glob
import json
import os
import subprocess

SERVER = os.path.join(os.path.dirname(os.path.abspath(__file__)), 'server.py')


def interpreters():
    res = {}
    for d in sorted(glob.glob('/root/.pyenv/versions/3.*')):
        v = os.path.basename(d)
        mm = '.'.join(v.split('.')[:2])
        exe = os.path.join(d, 'bin', 'python')
        if os.path.exists(exe):
            res[mm] = exe
    return res


INTERPRETERS = interpreters()
# parso version -> interpreter used as the judge (3.14 is judged by 3.13, as the properties say)
JUDGE = {'3.6': '3.6', '3.7': '3.7', '3.8': '3.8', '3.9': '3.9', '3.10': '3.10', '3.11': '3.11', '3.12': '3.12',
         '3.13': '3.13', '3.14': '3.13'}


class Oracle:
    def __init__(self, mm):
        self.mm = mm
        env = {'PYTHONIOENCODING': 'utf-8', 'PYTHONHASHSEED': '0', 'LC_ALL': 'C.UTF-8', 'PYTHONDONTWRITEBYTECODE': '1',
               'PYTHONUTF8': '1'}
        self.p = subprocess.Popen([INTERPRETERS[mm], '-S', '-E', SERVER], stdin=subprocess.PIPE, stdout=subprocess.PIPE,
                                  stderr=subprocess.DEVNULL, env=env)

    def ask(self, **req):
        self.p.stdin.write((json.dumps(req) + '\n').encode('utf-8'))
        self.p.stdin.flush()
        line = self.p.stdout.readline()
        if not line:
            raise RuntimeError('oracle %s died' % self.mm)
        return json.loads(line.decode('utf-8'))

    def close(self):
        try:
            self.p.stdin.close()
            self.p.wait(timeout=5)
        except Exception:
            self.p.kill()


_oracles = {}


def oracle(mm):
    """Returns the Oracle for interpreter ``mm`` or None when that interpreter is not installed."""
    if mm not in INTERPRETERS:
        return None
    o = _oracles.get(mm)
    if o is None or o.p.poll() is not None:
        o = _oracles[mm] = Oracle(mm)
    return o


def close_all():
    for o in _oracles.values():
        o.close()
    _oracles.clear()
