# CPython oracle server: runs under CPython 3.6 .. 3.13 (keep 3.6 compatible).
# Line-delimited JSON requests on stdin, one JSON reply per line on stdout.
import ast
import base64
import io
import json
import sys
import token
import tokenize
import warnings

warnings.simplefilter('ignore')


def do_tokenize(src):
    out = []
    try:
        for t in tokenize.generate_tokens(io.StringIO(src).readline):
            out.append([token.tok_name[t.type], t.string, t.start[0], t.start[1], t.end[0], t.end[1]])
    except Exception as e:
        return {'error': type(e).__name__ + ': ' + str(e)[:100], 'tokens': out}
    return {'tokens': out}


def do_compile(src):
    try:
        compile(src, '<x>', 'exec', dont_inherit=True)
        return {'ok': True}
    except (SyntaxError, ValueError, OverflowError, RecursionError, MemoryError) as e:
        return {'ok': False, 'error': type(e).__name__ + ': ' + str(e)[:200], 'lineno': getattr(e, 'lineno', None),
                'offset': getattr(e, 'offset', None)}


class _Revive(ast.NodeTransformer):
    """CPython <= 3.7 never compiles the body of `if <constant>:` / `while <constant>:` (nor the other branch), so its
    acceptance says nothing about code in there.  Replace every test that could fold to a constant by a plain name."""
    _LIVE = (ast.Name, ast.Attribute, ast.Call, ast.Subscript, ast.Lambda, ast.ListComp, ast.SetComp, ast.DictComp,
             ast.GeneratorExp, ast.Await, ast.Yield, ast.YieldFrom, ast.Starred)

    def _fix(self, node):
        self.generic_visit(node)
        if not any(isinstance(n, self._LIVE) for n in ast.walk(node.test)):
            node.test = ast.copy_location(ast.Name(id='vf_live', ctx=ast.Load()), node.test)
        return node
    visit_If = _fix
    visit_While = _fix


def do_compile_live(src):
    try:
        tree = ast.parse(src, '<x>', 'exec')
        tree = ast.fix_missing_locations(_Revive().visit(tree))
        compile(tree, '<x>', 'exec', dont_inherit=True)
        return {'ok': True}
    except (SyntaxError, ValueError, OverflowError, RecursionError, MemoryError) as e:
        return {'ok': False, 'error': type(e).__name__ + ': ' + str(e)[:200]}


def do_detect(b):
    data = base64.b64decode(b)
    try:
        enc, lines = tokenize.detect_encoding(io.BytesIO(data).readline)
    except Exception as e:
        return {'error': type(e).__name__ + ': ' + str(e)[:100]}
    try:
        text = data.decode(enc)
    except Exception as e:
        return {'encoding': enc, 'decode_error': type(e).__name__}
    ok = True
    try:
        compile(data, '<x>', 'exec', dont_inherit=True)
    except SyntaxError as e:
        msg = str(e)
        if 'encoding' in msg or 'codec' in msg or 'BOM' in msg or 'Non-UTF-8' in msg or 'decode' in msg:
            ok = False
    except Exception:
        pass
    return {'encoding': enc, 'text': text, 'compile_accepts_encoding': ok}


def main():
    for line in sys.stdin:
        req = json.loads(line)
        op = req['op']
        try:
            if op == 'tokenize':
                res = do_tokenize(req['src'])
            elif op == 'compile':
                res = do_compile(req['src'])
            elif op == 'compile_live':
                res = do_compile_live(req['src'])
            elif op == 'both':
                res = do_compile(req['src'])
                if res['ok']:
                    res.update(do_tokenize(req['src']))
            elif op == 'detect':
                res = do_detect(req['data'])
            elif op == 'ping':
                res = {'version': list(sys.version_info[:3])}
            else:
                res = {'error': 'unknown op'}
        except Exception as e:
            res = {'harness_error': type(e).__name__ + ': ' + str(e)[:200]}
        sys.stdout.write(json.dumps(res) + '\n')
        sys.stdout.flush()


main()
