"""Shared helpers: import of the code under test from /repo's working tree, reference
position walker, tree comparator, small utilities.  Everything that is an *oracle* here is
written without using parso's own position / line splitting code."""
import hashlib
import os
import re
import sys

REPO = os.environ.get('VERIF_REPO', '/repo')
VERIF = os.path.dirname(os.path.dirname(os.path.abspath(__file__)))

if sys.path[0] != REPO:
    sys.path.insert(0, REPO)
sys.dont_write_bytecode = True

from . import fastalloc  # noqa: E402
fastalloc.install()

import parso  # noqa: E402

if not os.path.abspath(parso.__file__).startswith(os.path.abspath(REPO) + os.sep):
    sys.stderr.write('HARNESS ERROR: parso imported from %s, not from %s\n' % (parso.__file__, REPO))
    sys.exit(2)

VERSIONS = ['3.6', '3.7', '3.8', '3.9', '3.10', '3.11', '3.12', '3.13', '3.14']
BOM = '﻿'
ZERO_WIDTH = ('INDENT', 'DEDENT', 'ERROR_DEDENT')

_grammars = {}


def grammar(v):
    g = _grammars.get(v)
    if g is None:
        g = _grammars[v] = parso.load_grammar(version=v)
    return g


def digest(*parts):
    h = hashlib.blake2b(digest_size=8)
    for p in parts:
        if not isinstance(p, bytes):
            p = repr(p).encode('utf-8', 'backslashreplace')
        h.update(p)
        h.update(b'\0')
    return h.digest()


def leaves(node):
    """In-order leaves by recursive descent over ``children`` (no navigation API used)."""
    out = []
    stack = [node]
    while stack:
        n = stack.pop()
        ch = getattr(n, 'children', None)
        if ch is None:
            out.append(n)
        else:
            stack.extend(reversed(ch))
    return out


def nodes_preorder(node):
    out = []
    stack = [node]
    while stack:
        n = stack.pop()
        out.append(n)
        ch = getattr(n, 'children', None)
        if ch is not None:
            stack.extend(reversed(ch))
    return out


def advance(pos, text):
    """Reference walker: only \\n, \\r\\n and \\r are line breaks."""
    line, col = pos
    i = 0
    n = len(text)
    while i < n:
        c = text[i]
        if c == '\r':
            if i + 1 < n and text[i + 1] == '\n':
                i += 1
            line += 1
            col = 0
        elif c == '\n':
            line += 1
            col = 0
        else:
            col += 1
        i += 1
    return (line, col)


def ref_split_lines(s, keepends):
    out = []
    cur = []
    i = 0
    n = len(s)
    while i < n:
        c = s[i]
        if c == '\r' and i + 1 < n and s[i + 1] == '\n':
            end = '\r\n'
            i += 2
        elif c == '\r' or c == '\n':
            end = c
            i += 1
        else:
            cur.append(c)
            i += 1
            continue
        out.append(''.join(cur) + (end if keepends else ''))
        cur = []
    out.append(''.join(cur))
    return out


def is_zero_width(leaf):
    return leaf.type == 'error_leaf' and leaf.token_type in ZERO_WIDTH


def is_error(n):
    return n.type in ('error_node', 'error_leaf')


def has_error(module):
    stack = [module]
    while stack:
        n = stack.pop()
        if n.type in ('error_node', 'error_leaf'):
            return True
        ch = getattr(n, 'children', None)
        if ch is not None:
            stack.extend(ch)
    return False


def tree_sig(node):
    """Structural signature used by the differential comparators (own code, not dump())."""
    out = []
    stack = [(node, 0)]
    while stack:
        n, d = stack.pop()
        ch = getattr(n, 'children', None)
        if ch is None:
            out.append((d, type(n).__name__, n.type, n.value, n.prefix, n.start_pos, n.end_pos,
                        getattr(n, 'token_type', None)))
        else:
            out.append((d, type(n).__name__, n.type, len(ch)))
            for c in reversed(ch):
                stack.append((c, d + 1))
    return out


def first_tree_diff(a, b):
    sa, sb = tree_sig(a), tree_sig(b)
    for i, (x, y) in enumerate(zip(sa, sb)):
        if x != y:
            return 'entry %d: %r != %r' % (i, x, y)
    if len(sa) != len(sb):
        return 'length %d != %d' % (len(sa), len(sb))
    return None


def parent_link_error(module):
    if module.parent is not None:
        return 'root has a parent'
    stack = [module]
    while stack:
        n = stack.pop()
        for c in getattr(n, 'children', ()):
            if c.parent is not n:
                return 'child %r of %r has parent %r' % (c, n, c.parent)
            stack.append(c)
    return None


def innermost_parso_frame(tb):
    """(function name, source line text) of the innermost traceback frame under REPO/parso."""
    import traceback
    frames = traceback.extract_tb(tb)
    root = os.path.join(os.path.abspath(REPO), 'parso') + os.sep
    for f in reversed(frames):
        if os.path.abspath(f.filename).startswith(root):
            return '%s:%s' % (os.path.basename(f.filename), f.name), (f.line or '').strip()
    return '?', ''


def crash_signature(exc):
    fn, line = innermost_parso_frame(exc.__traceback__)
    return 'crash:%s@%s:%s' % (type(exc).__name__, fn, ' '.join(line.split())), '%s: %s' % (type(exc).__name__, str(exc)[:200])


def short(s, n=160):
    r = repr(s)
    return r if len(r) <= n else r[:n] + '...'


def leaf_starting_at(module, pos):
    """The leaf whose value starts at ``pos`` (get_leaf_for_position returns the one *ending* there)."""
    try:
        leaf = module.get_leaf_for_position(tuple(pos), include_prefixes=True)
    except ValueError:
        return None
    while leaf is not None and tuple(leaf.start_pos) != tuple(pos) and tuple(leaf.end_pos) <= tuple(pos):
        leaf = leaf.get_next_leaf()
    return leaf


def scratch_dir(prefix):
    """Private scratch directory, on tmpfs when available (file-system calls on the VM disk serialise across processes)."""
    import tempfile
    base = '/dev/shm' if os.path.isdir('/dev/shm') and os.access('/dev/shm', os.W_OK) else None
    return tempfile.mkdtemp(prefix=prefix, dir=base)


# ---- tree provenance (shared by C01, C03, C11) ---------------------------------------------------------------------------
# The statements about trees quantify over every tree the library hands out, not only over fresh parses: a tree that was
# updated in place by the diff parser, one that went through pickle, or one whose lazily filled slots were already read must
# satisfy them as well.  ``tree_via`` produces the tree of ``code`` through the drawn provenance; ``observe(module, text)`` is
# the property's own reader, run on the *earlier* state so that anything a reader may memoise is filled before the tree changes.
PROVENANCES = ['fresh', 'fresh', 'fresh', 'observed', 'observed-aborted', 'diffed', 'diffed', 'unpickled']


def tree_shape(node):
    """Types, child counts, values and prefixes - no positions (those are what C03/C11 judge)."""
    out = []
    stack = [node]
    while stack:
        n = stack.pop()
        ch = getattr(n, 'children', None)
        if ch is None:
            out.append((n.type, n.value, n.prefix))
        else:
            out.append((n.type, len(ch)))
            stack.extend(reversed(ch))
    return out


def earlier_variant(code, how):
    """A text from which ``code`` is reached by a line-level edit (lines inserted / deleted / changed above, inside or below)."""
    lines = ref_split_lines(code, True)
    n = len(lines)
    k = how % 9
    mid = (how // 9) % (n + 1)
    nl = '\r\n' if '\r\n' in code else ('\r' if '\r' in code and '\n' not in code else '\n')
    if k == 0:
        return ''.join(lines[:mid] + ['pass' + nl] + lines[mid:])
    if k == 1:
        return ''.join(lines[:mid] + lines[mid + 1:]) if n > 1 else code + nl + 'x' + nl
    if k == 2:
        return nl * (1 + how % 3) + code
    if k == 3:
        return ''.join(lines[:mid] + ['"""a' + nl, 'b"""' + nl, nl] + lines[mid:])
    if k == 4:
        return ''.join(lines[min(mid, n - 1) + 1:]) if n > 1 else 'x = 1' + nl
    if k == 5:
        return ''.join(lines[:mid] + ['def _f(a):' + nl, '    return "s"' + nl] + lines[mid:]) + nl + 'y' + nl
    if k in (7, 8) and mid > 0:
        # the line above had an indented body (one or two lines) that the edit removed
        prev = lines[mid - 1]
        ind = prev[:len(prev) - len(prev.lstrip(' \t'))] + ('    ' if k == 7 else '\t')
        body = [ind + 'x' + nl] + ([ind + 'return' + nl] if how % 2 else [])
        if not prev.endswith(('\n', '\r')):
            body[0] = nl + body[0]
        return ''.join(lines[:mid] + body + lines[mid:])
    return ''.join(lines[:mid])


def delete_block(code, how):
    """``code`` without the block (the run of deeper indented or blank lines) below one of its lines that has one; None if there is none."""
    lines = ref_split_lines(code, True)

    def ind(l):
        return len(l) - len(l.lstrip(' \t'))
    heads = [i for i in range(len(lines) - 1) if lines[i].strip() and lines[i + 1].strip() and ind(lines[i + 1]) > ind(lines[i])]
    if not heads:
        return None
    i = heads[how % len(heads)]
    j = i + 1
    while j < len(lines) and (not lines[j].strip() or ind(lines[j]) > ind(lines[i])):
        j += 1
    return ''.join(lines[:i + 1] + lines[j:])


def tree_via(g, code, provenance, how, key, observe, same_shape_only=True):
    """Returns (module, provenance actually used).  Falls back to the fresh tree (and says so) when the in-place update
    gives another tree shape than the fresh parse - that divergence is C04's subject and is reported there."""
    import pickle as _pickle
    fresh = g.parse(code)
    if provenance == 'fresh':
        return fresh, 'fresh'
    if provenance == 'observed':
        observe(fresh, code)
        return fresh, 'observed'
    if provenance == 'observed-aborted':
        # a reader that was interrupted (exception at its n-th line inside the library) and the tree used again afterwards
        aborted(lambda: observe(fresh, code), 3 + how % 400)
        return fresh, 'observed-aborted'
    if provenance == 'unpickled':
        observe(fresh, code)
        return _pickle.loads(_pickle.dumps(fresh, protocol=2 + how % 4)), 'unpickled'
    from pathlib import Path
    from parso import cache as pcache
    path = Path('/nonexistent/vf-prov-%s.py' % key)
    earlier = earlier_variant(code, how)
    try:
        m0 = g.parse(earlier, diff_cache=True, path=path)
        try:
            observe(m0, earlier)
        except RecursionError:
            pass
        md = g.parse(code, diff_cache=True, path=path)
    finally:
        pcache.parser_cache.get(g._hashed, {}).pop(path, None)
    if earlier != code and (not same_shape_only or tree_shape(md) == tree_shape(fresh)):
        return md, 'diffed'
    return fresh, 'fresh(diff-fallback)'


# ---- process history: earlier operations that were abandoned or aborted ---------------------------------------------------
# "The same on every call, whatever was parsed before" includes calls that did not finish: a token stream whose consumer stopped
# reading, a strict parse that raised, and a call aborted by an exception at an arbitrary point (RecursionError on deep input is
# documented; KeyboardInterrupt / MemoryError can strike anywhere).  ``disturb`` performs one such earlier operation; which one is a
# pure function of ``h`` (an int derived from the case), so a replay repeats it.
class Abort(BaseException):
    pass


_PARSO_ROOT = os.path.join(os.path.abspath(REPO), 'parso') + os.sep
DISTURB_TEXTS = ['def f(a):\n    if a:\n        b = = 1\n', 'x\n    y )\n  z\n', 'class A:\n  def f(self):\n      (\n  x = f"{\n',
                 'if x:\n        a\n    b\n c\n', 'def f():\n\tx = [\n\t1,\n', 'for a in b:\n    try:\n        c\n  d\n    e\n',
                 'if x:\n    def g(a, b=f"{x!r:>{w}}"):\n        return lambda: (yield)\n    else\n',
                 # operations that stop inside an f-string replacement field, for several opening tokens
                 's = f"{a b}"\n', "s = f'{a b}'\n", "if x:\n    s = rf\'\'\'{a + (b\n", 'x = F"""{[1,\n 2 3]}"""\n', "print(fr'{a!r:{w} }' 1)\n",
                 "s = f'{f\"{a b}\"}'\n", '1 +', 'x = (1, 2', 'f(a b)', 'lambda: 1 1']


def aborted(fn, n, files=None):
    """Runs fn(); the n-th line event inside the library (``files``: only in modules with these base names) raises Abort there.
    Returns True when the call was aborted."""
    import sys as _sys
    count = [0]

    def local(frame, event, arg):
        if event == 'line':
            count[0] += 1
            if count[0] >= n:
                raise Abort()
        return local

    def tracer(frame, event, arg):
        fn_ = frame.f_code.co_filename
        if fn_.startswith(_PARSO_ROOT) and (files is None or os.path.basename(fn_) in files):
            return local
        return None
    old = _sys.gettrace()
    _sys.settrace(tracer)
    try:
        fn()
        return False
    except Abort:
        return True
    except Exception:
        return False        # e.g. the ParserSyntaxError of a strict parse that got as far as its error
    finally:
        _sys.settrace(old)


_FSTART = re.compile(r'''(?i)(?<![A-Za-z0-9_])(rf|fr|f)("""|\'\'\'|"|\')''')


def disturb(g, h, hint=None):
    """``hint``: the text of the case itself; half of the time the unfinished earlier operation then works on a *related* text - it
    stops inside a replacement field of an f-string with the same opening token as one in the case."""
    import parso as _parso
    from parso.python.tokenize import tokenize as _tokenize
    text = DISTURB_TEXTS[(h >> 3) % len(DISTURB_TEXTS)]
    if hint and (h >> 20) % 2:
        ms = _FSTART.findall(hint)
        if ms:
            p_, q_ = ms[(h >> 21) % len(ms)]
            text = ['s = %s{a b}%s\n', 'if x:\n    s = %s{a + (b\n', 'print(%s{a!r:{w} }%s 1)\n'][(h >> 24) % 3].replace('%s', p_ + q_, 1).replace('%s', q_)
    mode = h % 9
    if mode == 0:
        kw = {'start_symbol': 'eval_input'} if (h >> 16) % 2 else {}       # (the other start rule of the grammar files)
        try:
            g.parse(text, error_recovery=False, **kw)
        except _parso.ParserSyntaxError:
            pass
    elif mode == 1:
        it = _tokenize(text, version_info=g.version_info)
        for _ in range(3 + (h >> 8) % 9):
            next(it, None)
        del it
    else:
        n = 5 + (h >> 8) % (60 if mode == 2 else 900)
        if mode in (2, 3):
            aborted(lambda: g.parse(text), n)
        elif mode == 4:
            m = g.parse(text)
            aborted(lambda: list(g.iter_errors(m)), n)
        elif mode == 5:
            kw = {'start_symbol': 'eval_input'} if (h >> 16) % 2 else {}
            aborted(lambda: g.parse(text, error_recovery=False, **kw), n)
        elif mode == 6:
            m = g.parse(text)
            aborted(lambda: g._get_normalizer_issues(m), n * 3)
        elif mode == 7:
            m = g.parse(text)
            leaf = m.get_first_leaf()
            mapping = {}
            while leaf is not None:
                mapping[leaf] = 'R'
                leaf = leaf.get_next_leaf()
            if (h >> 16) % 2:
                aborted(lambda: g.refactor(m, mapping), n)
            else:
                try:
                    g.refactor(m, dict(mapping, **{}) if not mapping else {**mapping, m.get_last_leaf(): 5})     # a non-str replacement: TypeError
                except TypeError:
                    pass
        else:
            m = g.parse(text)
            aborted(lambda: (m.get_used_names(), [n_.is_definition() for ns in m.get_used_names().values() for n_ in ns]), n)


def case_int(*parts):
    return int.from_bytes(digest(*parts), 'big')


def maybe_disturb(g, *parts):
    """One case in three is preceded by an unfinished earlier call (see ``disturb``); a pure function of the case."""
    h = case_int(*parts)
    if h % 3 == 0:
        disturb(g, h // 3, parts[0] if isinstance(parts[0], str) else None)
