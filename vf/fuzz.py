"""Coverage-guided sub-tier (atheris / libFuzzer) for the text-in properties (C01, C02, C03, C09, C13).
The fuzzer's bytes are decoded into a structured case (version, text built from the same fragment vocabulary as
G-TEXT plus raw code points) and the property's own ``check`` — i.e. the semantic oracle — runs inside the target.
A failing case is written as a normal replay JSON and the process exits with status 77.

usage:  python -m vf.fuzz <Cxx> <out-dir> [libFuzzer args...]"""
import json
import os
import sys


def main():
    pid, outdir = sys.argv[1], sys.argv[2]
    argv = [sys.argv[0]] + sys.argv[3:]
    import atheris
    repo = os.environ.get('VERIF_REPO', '/repo')
    if sys.path[0] != repo:
        sys.path.insert(0, repo)
    sys.dont_write_bytecode = True
    with atheris.instrument_imports(include=['parso']):     # must happen before anything imports parso
        import parso  # noqa: F401
        import parso.python.tokenize  # noqa: F401
        import parso.python.diff  # noqa: F401
        import parso.python.errors  # noqa: F401
        import parso.python.pep8  # noqa: F401
    from .common import VERSIONS, digest
    from . import engine
    from .gen import text as T
    prop = engine.load_prop(pid)
    known = {k['signature'] for k in engine.load_known(pid)}
    frags = (T.KEYWORDS + T.OPERATORS + T.NUMBERS + T.NAMES + T.LAYOUT + T.ODD + T.COMMENTS + T.FSTRING_BITS + T.STMT_STARTS
             + [p + q for p in T.STRING_PREFIXES for q in T.STRING_OPENERS])
    count = [0]
    # C02 claims totality only up to nesting depth 100: 16 pieces of at most 6 nesting characters each stay below it
    max_parts = 16 if pid == 'C02' else 60

    def one(data):
        fdp = atheris.FuzzedDataProvider(data)
        v = VERSIONS[fdp.ConsumeIntInRange(0, len(VERSIONS) - 1)]
        parts = []
        while fdp.remaining_bytes() > 0 and len(parts) < max_parts:
            k = fdp.ConsumeIntInRange(0, 9)
            if k < 8:
                parts.append(frags[fdp.ConsumeIntInRange(0, len(frags) - 1)])
                if k == 0:
                    parts.append(' ')
            else:
                parts.append(fdp.ConsumeUnicodeNoSurrogates(fdp.ConsumeIntInRange(0, 6)))
        case = {'code': ''.join(parts), 'version': v}
        if pid == 'C01':
            case['input'] = 'str'
        count[0] += 1
        out = prop.check(case)
        if out.fail is not None and out.fail[0] not in known:
            os.makedirs(outdir, exist_ok=True)
            path = os.path.join(outdir, '%s-fuzz-%s.json' % (pid, digest(out.fail[0]).hex()))
            with open(path, 'w') as f:
                json.dump({'property': pid, 'signature': out.fail[0], 'detail': out.fail[1], 'case': case}, f, indent=1)
            sys.stderr.write('FUZZ-FAIL %s %s\n' % (out.fail[0], path))
            sys.stderr.flush()
            os._exit(77)

    atheris.Setup(argv, one)
    atheris.Fuzz()


if __name__ == '__main__':
    main()
