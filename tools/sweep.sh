#!/bin/sh
# usage: tools/sweep.sh "<seeds>" "<props>" [tier]   — runs checks for several seeds, prints rc per run
cd "$(dirname "$0")/.." || exit 2
[ -f native/arena_cache.so ] || cc -O2 -shared -fPIC -o native/arena_cache.so native/arena_cache.c
tier=${3:-quick}
for s in $1; do for p in $2; do
  VERIF_SEED=$s ./check $p --tier $tier > /tmp/sweep.$$.out 2>&1; rc=$?
  echo "seed=$s $p rc=$rc $(grep -E "^$p " /tmp/sweep.$$.out | tail -1)"
  [ $rc -ne 0 ] && grep -E 'signature|detail|case:|VIOLATION|HARNESS|Error' /tmp/sweep.$$.out | head -20
done; done
rm -f /tmp/sweep.$$.out
