#!/bin/sh
# usage: tools/try_seed.sh <patch.diff> "<props>" [tier]  — applies a seeded change to /repo, runs the checks, reverts.
# Developer tool for sensitivity testing; never part of a registered check.
patch=$1; props=$2; tier=${3:-quick}
cd /repo || exit 2
if [ -n "$(git status --porcelain)" ]; then echo "/repo not clean"; exit 2; fi
git apply "$patch" || { echo "patch does not apply"; exit 2; }
cd /verif
for p in $props; do
  ./check $p --tier $tier > /tmp/try_seed.$$.out 2>&1; rc=$?
  echo "== $p rc=$rc $(grep -E "^$p " /tmp/try_seed.$$.out | tail -1)"
  grep -E 'signature|detail|VIOLATION|HARNESS' /tmp/try_seed.$$.out | cut -c1-300 | head -12
done
rm -f /tmp/try_seed.$$.out
git -C /repo checkout -- . ; git -C /repo status --porcelain | head -3
rm -rf /verif/replays/found
