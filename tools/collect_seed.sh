#!/bin/sh
# usage: tools/collect_seed.sh <Cxx> [n] [round]  — copies a sub-agent's deliverables from its scratch worktree /tmp/seedwt/<Cxx> into
# seeded/<Cxx>-<n>/ and measures it with tools/seed_matrix.py against a scratch worktree (SEED_REPO), so /repo stays untouched.
# Developer tool; never part of a registered check.
p=$1; n=${2:-6}; round=${3:-5}
cd "$(dirname "$0")/.." || exit 2
src=${SEEDWT:-/tmp/seedwt}/$p; dst=seeded/$p-$n
for f in seed_patch.diff seed_demo.py seed_meta.json; do [ -s $src/$f ] || { echo "$p: $f missing"; exit 2; }; done
mkdir -p $dst
cp $src/seed_patch.diff $dst/patch.diff; cp $src/seed_demo.py $dst/demo.py
python3 - "$src/seed_meta.json" "$dst/meta.json" "$p" "$round" <<'PY'
import json, sys
m = json.load(open(sys.argv[1])); m['property'] = sys.argv[3]; m['round'] = int(sys.argv[4])
json.dump(m, open(sys.argv[2], 'w'), indent=1)
PY
wt=/tmp/evalwt.$p
git -C /repo worktree add -q --detach $wt HEAD || exit 2
SEED_REPO=$wt /venv/bin/python tools/seed_matrix.py $p-$n
git -C /repo worktree remove --force $wt
