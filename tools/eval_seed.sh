#!/bin/sh
# usage: tools/eval_seed.sh <seed dir> "<props>" [tier]
# Confirms a seeded change (demo passes on clean /repo, fails with the patch, upstream suite passes with the patch),
# then runs the given checks against it. Developer tool; never part of a registered check.
d=$1; props=$2; tier=${3:-quick}
cd /repo || exit 2
[ -z "$(git status --porcelain)" ] || { echo "/repo not clean"; exit 2; }
PARSO_DIR=/repo /venv/bin/python $d/demo.py >/dev/null 2>&1; echo "demo clean rc=$?"
git apply $d/patch.diff || { echo "patch does not apply"; exit 2; }
PARSO_DIR=/repo /venv/bin/python $d/demo.py >/dev/null 2>&1; echo "demo patched rc=$?"
/venv/bin/python -m pytest -q -p no:cacheprovider -x 2>&1 | tail -1
cd /verif
for p in $props; do
  ./check $p --tier $tier > /tmp/eval_seed.$$.out 2>&1; rc=$?
  echo "== $p rc=$rc $(grep -E "^$p " /tmp/eval_seed.$$.out | tail -1)"
  grep -E 'signature|detail|VIOLATION|HARNESS' /tmp/eval_seed.$$.out | cut -c1-260 | head -8
done
rm -f /tmp/eval_seed.$$.out
git -C /repo checkout -- . ; git -C /repo status --porcelain | head -3
