#!/usr/bin/env python3
"""Definitive sensitivity run: for every seeded change under /verif/seeded/ (or those named on the command line)
apply it to /repo, confirm (demo fails, upstream suite passes), run the quick check of its property (and optional extra
checks), record the outcome in meta.json, revert.  Developer tool; refuses to run when /repo is dirty."""
import glob, json, os, re, subprocess, sys, time
HERE = os.path.dirname(os.path.dirname(os.path.abspath(__file__)))
# target checkout: /repo itself, or a scratch `git worktree` of it (SEED_REPO) so that /repo stays free for other runs
REPO = os.environ.get('SEED_REPO', '/repo')
EXTRA = {'C03-7': ['C15'], 'C04-7': ['C16'], 'C11-7': ['C16', 'C17'], 'C01-7': ['C18'], 'C06-7': ['C18'], 'C07-7': ['C18'], 'C06-2': ['C10'], 'C06-1': ['C14'], 'C11-1': ['C05']}


def sh(cmd, cwd=None, timeout=None, env=None):
    try:
        r = subprocess.run(cmd, shell=True, cwd=cwd, capture_output=True, text=True, timeout=timeout, env=env)
        return r.returncode, r.stdout + r.stderr
    except subprocess.TimeoutExpired as e:
        return 124, (e.stdout or '') if isinstance(e.stdout, str) else ''


def main():
    names = sys.argv[1:] or [os.path.basename(d) for d in sorted(glob.glob(os.path.join(HERE, 'seeded', 'C*-*')))]
    for name in names:
        d = os.path.join(HERE, 'seeded', name)
        meta = json.load(open(os.path.join(d, 'meta.json')))
        if sh('git status --porcelain', cwd=REPO)[1].strip():
            print(REPO + ' not clean'); sys.exit(2)
        env = dict(os.environ, PARSO_DIR=REPO, VERIF_REPO=REPO, PYTHONPATH=REPO + os.pathsep + os.environ.get('PYTHONPATH', ''))
        rc_clean = sh('/venv/bin/python %s/demo.py' % d, env=env, timeout=300)[0]
        rc, out = sh('git apply %s/patch.diff' % d, cwd=REPO)
        if rc:
            print(name, 'patch does not apply', out); continue
        try:
            rc_patched = sh('/venv/bin/python %s/demo.py' % d, env=env, timeout=300)[0]
            suite = sh('/venv/bin/python -m pytest -q -p no:cacheprovider -x 2>&1 | tail -1', cwd=REPO, timeout=900, env=env)[1].strip()
            results = {}
            pid = meta['property']
            for chk in [pid] + EXTRA.get(name, []):
                t0 = time.time()
                rc, out = sh('./check %s --tier quick' % chk, cwd=HERE, timeout=1500, env=dict(os.environ, VERIF_REPO=REPO))
                sigs = sorted(set(re.findall(r'signature: (.*)', out)))
                results[chk] = {'rc': rc, 'signatures': sigs[:6], 'wall_s': round(time.time() - t0)}
        finally:
            sh('git checkout -- .', cwd=REPO)
            sh('rm -rf replays/found', cwd=HERE)
        meta['verified'] = {'demo_exit_clean_tree': rc_clean, 'demo_exit_with_patch': rc_patched, 'upstream_suite_with_patch': suite,
                            'ran': 'tools/seed_matrix.py: git -C <checkout> apply patch.diff; demo.py; pytest; ./check <id> --tier quick (VERIF_REPO=<checkout>); git -C <checkout> checkout -- .   (<checkout> = /repo or a scratch git worktree of it)'}
        caught = [c for c, r in results.items() if r['rc'] == 1]
        meta['detection'] = {'caught_by': ', '.join(caught) or 'MISSED', 'results': results,
                             'note': meta.get('detection', {}).get('note', '')}
        json.dump(meta, open(os.path.join(d, 'meta.json'), 'w'), indent=1)
        print(name, 'demo', rc_clean, rc_patched, '|', suite, '|', {c: (r['rc'], r['signatures'][:2]) for c, r in results.items()}, flush=True)


main()
