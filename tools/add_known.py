#!/usr/bin/env python3
"""usage: tools/add_known.py <replay.json> <finding-id> <what fails>   (developer tool; never run by a check)"""
import json, os, shutil, sys
HERE = os.path.dirname(os.path.dirname(os.path.abspath(__file__)))
src, fid, what = sys.argv[1], sys.argv[2], sys.argv[3]
r = json.load(open(src))
dst = os.path.join('replays', 'known', fid + '.json')
json.dump(r, open(os.path.join(HERE, dst), 'w'), indent=1, sort_keys=True)
k = json.load(open(os.path.join(HERE, 'known_findings.json')))
k['findings'] = [f for f in k['findings'] if f['id'] != fid]
k['findings'].append({'property': r['property'], 'id': fid, 'signature': r['signature'], 'replay': dst, 'what': what})
json.dump(k, open(os.path.join(HERE, 'known_findings.json'), 'w'), indent=1)
print('added', fid, r['signature'])
