#!/usr/bin/env python3
"""Regenerates MANIFEST.json from tools/manifest_data.py (kept valid against the schema)."""
import json, os, sys
HERE = os.path.dirname(os.path.dirname(os.path.abspath(__file__)))
sys.path.insert(0, os.path.join(HERE, 'tools'))
import manifest_data as D

checks = []
for pid, c in sorted(D.CHECKS.items()):
    checks.append({
        'property_id': pid,
        'quick_cmd': './check %s --tier quick' % pid,
        'thorough_cmd': './check %s --tier thorough' % pid,
        'evidence_file': 'evidence/%s.json' % pid,
        'replay_cmd_template': './check %s --replay {path}' % pid,
        'engine': 'vf',
        'level_claimed': {'category': c['level'], 'text': c['text'] + getattr(D, 'EXTRA_TEXT', {}).get(pid, ''), 'design_ref': 'DESIGN.md section 2, ' + pid},
        'level_note': c['note'],
        'technique': c['technique'],
    })
props = [json.loads(l)['id'] for l in open(os.path.join(HERE, 'properties.jsonl'))]
na = [{'property_id': p, 'reason': D.NOT_APPLICABLE.get(p, 'check not built yet in this session (work in progress; see DESIGN.md)')}
      for p in props if p not in D.CHECKS]
m = {
    'version': 1,
    'setup_cmd': D.SETUP,
    'hooks': {'guard': 'PARSO_VERIF', 'enable': 'no source hooks are needed: checks import /repo working tree directly (./check exports PARSO_VERIF=1 for uniformity)',
              'baseline_off_cmd': 'cd /repo && /venv/bin/python -m pytest -q -p no:cacheprovider', 'source_commits': [], 'add_only': True},
    'engines': [{'name': 'vf', 'path': 'vf/', 'serves_properties': sorted(D.CHECKS), 'kind_free_text':
                 'Hypothesis-driven sharded generation + explicit oracles (reference models, differential, CPython oracle servers), own ddmin shrinker, replay files'}],
    'checks': checks,
    'notes': D.NOTES,
}
if na:
    m['not_applicable'] = na
json.dump(m, open(os.path.join(HERE, 'MANIFEST.json'), 'w'), indent=1)
try:
    import jsonschema
    jsonschema.validate(m, json.load(open('/root/.vp/MANIFEST.schema.json')))
    print('MANIFEST.json valid;', len(checks), 'checks,', len(na), 'not claimed')
except ImportError:
    print('written (jsonschema not importable here)')
