SETUP = ("/venv/bin/python -c 'import hypothesis' 2>/dev/null || /venv/bin/pip install --no-index --find-links /opt/veriftools/wheels hypothesis; "
         "cc -O2 -shared -fPIC -o native/arena_cache.so native/arena_cache.c || true; "
         "/venv/bin/pip install -q --no-index --find-links /opt/veriftools/wheels --target /verif/.deps atheris >/dev/null 2>&1 || true")
NOTES = ("All checks: ./check <id> --tier quick|thorough; exit 0 held (KNOWN-FINDING lines for listed findings), 1 VIOLATION, 2 harness error. "
         "Runs are a pure function of /repo's working tree and VERIF_SEED. known_findings.json is never written at run time.")
NOT_APPLICABLE = {}
CHECKS = {
 'C01': dict(level='exploration', technique='property-based testing: Hypothesis-generated adversarial text, round-trip/tiling oracle, 16 shards',
   text='Generated-input search (tens of thousands of adversarial texts per run x 9 versions x str/bytes) against an exact round-trip and per-subtree slice oracle computed from running offsets; exploration, not proof.',
   note='Assumes CPython str operations; bytes inputs limited to UTF-8 (decoding rules are C15).'),
}
