SETUP = ("/venv/bin/python -c 'import hypothesis' 2>/dev/null || /venv/bin/pip install --no-index --find-links /opt/veriftools/wheels hypothesis; "
         "cc -O2 -shared -fPIC -o native/arena_cache.so native/arena_cache.c || true; "
         "/venv/bin/pip install -q --no-index --find-links /opt/veriftools/wheels --target /verif/.deps atheris >/dev/null 2>&1 || true")
NOTES = ("All checks: ./check <id> --tier quick|thorough; exit 0 held (KNOWN-FINDING lines for listed findings), 1 VIOLATION, 2 harness error. "
         "Runs are a pure function of /repo's working tree and VERIF_SEED. known_findings.json is never written at run time.")
NOT_APPLICABLE = {}
CHECKS = {
 'C01': dict(level='exploration', technique='property-based testing: Hypothesis-generated adversarial text, round-trip/tiling oracle, 16 shards',
   text='Generated-input search (tens of thousands of adversarial texts per run x 9 versions x str/bytes) against an exact round-trip and per-subtree slice oracle computed from running offsets; exploration, not proof.',
   note='Assumes CPython str operations; bytes inputs limited to UTF-8 (decoding rules are C15).'),
 'C02': dict(level='exploration', technique='property-based testing: nesting builders bounded at depth 100 + token soups, totality and shape predicates, deterministic termination budget',
   text='Generated search over texts of bounded nesting (depth-100 ladders of every opener/block kind enumerated, random nesting mixes, token soups, mutated real code) with a totality/shape oracle; termination decided by a line-event budget, not wall clock.',
   note='Depth bound holds by construction of the builders; RecursionError counts only within 950 frames of head-room above the call.'),
 'C03': dict(level='exploration', technique='property-based testing against an independent character-level position walker',
   text='Every leaf/node position of every generated tree compared with a reference walker that knows only the three Python line breaks and the zero-width BOM.',
   note='Zero-width indentation leaves read as in DESIGN 2/C03: empty, located at the start of the next real leaf value.'),
 'C07': dict(level='exploration', technique='differential property-based testing: strict vs recovering parser on generated texts',
   text='Strict and recovering parses of each generated text compared: raise iff error in tree, identical trees otherwise, same first error token.',
   note='First error = minimum by position over error leaves and leaves following error nodes at every depth.'),
 'C09': dict(level='exploration', technique='property-based testing: tokenizer tiling/position/balance/purity predicates and prefix-part walker on generated texts',
   text='Token streams and prefix parts of generated adversarial texts (f-string interiors, non-Python whitespace, BOM) checked against tiling, reference positions, INDENT/DEDENT balance and a purity grammar for prefixes.',
   note='Token.end_pos is outside the statement.'),
 'C11': dict(level='exploration', technique='property-based testing: navigation API vs in-order leaf list, every position of every generated text',
   text='For each generated tree all nodes, leaves and all (line, column) positions are compared with an in-order leaf list computed by own descent (identity comparisons).',
   note='Per-tree exhaustive over positions; trees are sampled.'),
 'C13': dict(level='exploration', technique='property-based testing: totality/purity/determinism and error-coverage predicates on iter_errors over generated trees',
   text='iter_errors run on trees of generated adversarial texts; well-formedness, one-per-line, coverage of every recorded tree error, purity and determinism are checked.',
   note='Error-node reporting line admits the documented f-string placement for >= 3.9 (DESIGN 2/C13).'),
 'C19': dict(level='exploration', technique='property-based testing: pickle / dump-eval round trips and refactor splice vs offset model',
   text='Round trips through pickle (all protocols) and eval(dump(indent)) compared with an own structural comparator; refactor compared with a text splice computed from running offsets for drawn antichains of nodes.',
   note='Empty-span targets (zero-width leaves) are not used as refactoring targets.'),
 'C20': dict(level='exploration', technique='property-based testing: totality with crash bucketing, well-formedness, determinism, provenance differential (fresh / diff_cache / pickle), W292 exactness',
   text='PEP 8 checker run on generated trees x 7 configurations; crashes bucketed by call site against known_findings.json, issue well-formedness, stability across calls and provenances, exact W292.',
   note='Nine crash call sites are carried as listed findings (KNOWN-FINDING lines); anything else is a violation.'),
 'C04': dict(level='exploration', technique='model-based (stateful) property testing: generated edit histories, incremental vs fresh parse differential after every step',
   text='Edit histories (2-11 texts, 18 kinds of edit incl. undo, BOM/newline-style toggles, flow/decorator lines) are replayed through diff_cache under a private path; after every step the incremental tree is compared with a fresh parse by an own comparator, plus parent links, code and the used-names index.',
   note='Copy/re-parse counts come from a counting DiffParser subclass on a private grammar instance; one listed finding (F-C04-2) is signature-matched when its trigger is in the old text.'),
 'C08': dict(level='exploration', technique='exhaustive enumeration of all shipped rules/states + property-based testing on random EBNF grammars against an independent NFA/DFA/first-set model',
   text='Every rule and automaton state of every shipped grammar file is compared each run (bisimulation = language equality, exact token->plan tables, reserved strings); random small EBNF grammars extend this to the generator itself incl. the reject-iff-not-LL(1) clause.',
   note='Reference model in vf/model/ebnf.py shares no code with parso; nullable-follow conflicts are outside the claim as stated. Exhaustive for the shipped files, sampled for random grammars.'),
}
