#!/usr/bin/env python3
"""Copies the confirmed seeded changes from the sub-agents' scratch worktrees into /verif/seeded/<id>-<n>/ and
(re)builds seeded/INDEX.md from the meta.json files.  Developer tool."""
import glob, json, os, shutil, sys
HERE = os.path.dirname(os.path.dirname(os.path.abspath(__file__)))
for d in sorted(glob.glob('/tmp/wt-C*/seeded/*')):
    pid = d.split('/')[2][3:]
    n = os.path.basename(d)
    dst = os.path.join(HERE, 'seeded', '%s-%s' % (pid, n))
    if not all(os.path.exists(os.path.join(d, f)) for f in ('patch.diff', 'demo.py', 'meta.json')):
        continue
    os.makedirs(dst, exist_ok=True)
    for f in ('patch.diff', 'demo.py'):
        shutil.copy(os.path.join(d, f), os.path.join(dst, f))
    meta = json.load(open(os.path.join(d, 'meta.json')))
    old = {}
    if os.path.exists(os.path.join(dst, 'meta.json')):
        old = json.load(open(os.path.join(dst, 'meta.json')))
    for k in ('verified', 'detection'):
        if k in old:
            meta[k] = old[k]
    meta['property'] = pid
    json.dump(meta, open(os.path.join(dst, 'meta.json'), 'w'), indent=1)
rows = []
for m in sorted(glob.glob(os.path.join(HERE, 'seeded', '*', 'meta.json'))):
    meta = json.load(open(m))
    name = os.path.basename(os.path.dirname(m))
    det = meta.get('detection', {})
    rows.append('| %s | %s | %s | %s | %s |' % (name, meta.get('summary', '').replace('|', '/')[:160], meta.get('needs', '').replace('|', '/')[:140],
                                             det.get('caught_by', '?'), det.get('note', '')))
with open(os.path.join(HERE, 'seeded', 'INDEX.md'), 'w') as f:
    f.write('# Seeded changes (sensitivity evidence)\n\nEach directory holds `patch.diff` (apply with `git -C /repo apply`), `demo.py` '
            '(exit 1 with the patch, 0 without; `PARSO_DIR=/repo`), and `meta.json` (what it breaks, what it needs, what was run).\n'
            'None of these changes is ever committed to /repo.\n\n| seed | change | needs | caught by (quick tier) | note |\n|---|---|---|---|---|\n')
    f.write('\n'.join(rows) + '\n')
print(len(rows), 'seeds archived')
