#!/usr/bin/env python3
"""Regenerates vf/gen/version_sensitive.json: texts of the list-context x element product (and the committed C12 regression
inputs) on which parso's own result (error nodes present, issue list) differs between two ADJACENT grammar versions.  They are
generator inputs only (texts that sit exactly on a version guard of the tokenizer, a grammar file or a semantic rule) - never an
oracle.  Developer tool: /venv/bin/python tools/mk_version_sensitive.py [nproc]"""
import glob, json, os, sys
from multiprocessing import Pool
HERE = os.path.dirname(os.path.dirname(os.path.abspath(__file__)))
sys.path.insert(0, HERE)
os.environ.setdefault('PYTHONHASHSEED', '0')
VERS = ['3.6', '3.7', '3.8', '3.9', '3.10', '3.11', '3.12', '3.13', '3.14']
WRAPS = ['%s', 'def g():\n %s', 'async def g():\n %s', 'class C:\n %s']


def sig(text):
    from vf.common import grammar, has_error
    out = []
    for v in VERS:
        g = grammar(v)
        try:
            m = g.parse(text + '\n')
            out.append((has_error(m), tuple((i.code, i.message, i.start_pos) for i in g.iter_errors(m))))
        except Exception as e:
            out.append(('EXC', type(e).__name__))
    return [i for i in range(len(VERS) - 1) if out[i] != out[i + 1]]


def main():
    from vf.gen import text as T
    texts = []
    for ci, c in enumerate(T.LIST_CONTEXTS):
        for e in T.LIST_ELEMENTS:
            for w in WRAPS:
                try:
                    texts.append((ci, w % (c % e)))
                except (TypeError, ValueError):
                    pass
    for f in sorted(glob.glob(os.path.join(HERE, 'replays', 'regress', 'C1[23]', '*.json'))):
        code = json.load(open(f))['case'].get('code')
        if code:
            texts.append((-1, code.rstrip('\n')))
    print(len(texts), 'candidate texts')
    with Pool(int(sys.argv[1]) if len(sys.argv) > 1 else 8) as p:
        res = p.map(sig, [t for _, t in texts], chunksize=200)
    per = {i: [] for i in range(len(VERS) - 1)}
    for (ci, t), bs in zip(texts, res):
        for b in bs:
            per[b].append((ci, t))
    out = []
    for b, lst in per.items():
        # at most 400 per boundary, round-robin over contexts so that no context dominates
        byc = {}
        for ci, t in lst:
            byc.setdefault(ci, []).append(t)
        picked = []
        k = 0
        while len(picked) < 400 and any(byc.values()):
            for ci in sorted(byc):
                if byc[ci] and len(picked) < 400:
                    picked.append(byc[ci].pop((k * 7) % len(byc[ci])))
            k += 1
        print(VERS[b], '|', VERS[b + 1], len(lst), 'texts differ,', len(picked), 'kept')
        out += [{'text': t, 'versions': [VERS[b], VERS[b + 1]]} for t in picked]
    json.dump(out, open(os.path.join(HERE, 'vf', 'gen', 'version_sensitive.json'), 'w'), indent=0, ensure_ascii=False)


main()
