#!/bin/sh
# runs every thorough tier once (developer tool; several hours)
cd "$(dirname "$0")/.." || exit 2
[ -f native/arena_cache.so ] || cc -O2 -shared -fPIC -o native/arena_cache.so native/arena_cache.c
[ -d .deps ] || /venv/bin/pip install -q --no-index --find-links /opt/veriftools/wheels --target .deps atheris >/dev/null 2>&1
for p in ${1:-C01 C02 C03 C04 C05 C06 C07 C08 C09 C10 C11 C12 C13 C14 C15 C16 C17 C18 C19 C20}; do
  VERIF_SEED=${2:-9} ./check $p --tier thorough > /tmp/thorough.$$.out 2>&1; rc=$?
  echo "$p rc=$rc $(grep -E "^$p " /tmp/thorough.$$.out | tail -1)"
  [ $rc -ne 0 ] && grep -E 'signature|detail|case:|VIOLATION|HARNESS|Error' /tmp/thorough.$$.out | cut -c1-400 | head -20
done
rm -f /tmp/thorough.$$.out
