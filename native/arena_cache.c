/* Caching replacement for CPython's arena allocator (PyObject_SetArenaAllocator).
 *
 * Why: CPython >= 3.11 allocates every 16 KiB frame "data stack chunk" with mmap() and
 * releases it with munmap() as soon as the frame that opened it returns.  Recursive code
 * (parso's tree walks, Hypothesis' draw machinery) oscillates around a chunk boundary and
 * issues thousands of mmap/munmap pairs per second; in this sandbox's VM these calls
 * serialise across processes (measured: 0.7 s alone, 25 s with 16 processes), which made
 * the 16-shard campaigns slower than one shard.  This shim keeps released blocks in
 * per-size free lists instead of unmapping them.  It changes nothing about the code under
 * test; without it the checks are merely slower.
 */
#define _GNU_SOURCE
#include <stddef.h>
#include <string.h>
#include <sys/mman.h>

#define NCLASS 8
struct node { struct node *next; };
static struct { size_t size; struct node *head; } classes[NCLASS];

typedef struct { void *ctx; void *(*alloc)(void *, size_t); void (*free)(void *, void *, size_t); } ArenaAllocator;

static void *cache_alloc(void *ctx, size_t size) {
    (void)ctx;
    for (int i = 0; i < NCLASS; i++) {
        if (classes[i].size == size && classes[i].head) {
            struct node *n = classes[i].head;
            classes[i].head = n->next;
            if (size <= (1u << 16)) memset(n, 0, size); else n->next = NULL;
            return n;
        }
    }
    void *p = mmap(NULL, size, PROT_READ | PROT_WRITE, MAP_PRIVATE | MAP_ANONYMOUS, -1, 0);
    return p == MAP_FAILED ? NULL : p;
}

static void cache_free(void *ctx, void *ptr, size_t size) {
    (void)ctx;
    for (int i = 0; i < NCLASS; i++) {
        if (classes[i].size == size || classes[i].size == 0) {
            classes[i].size = size;
            struct node *n = ptr;
            n->next = classes[i].head;
            classes[i].head = n;
            return;
        }
    }
    munmap(ptr, size);
}

void fill_allocator(ArenaAllocator *a) {
    a->ctx = NULL;
    a->alloc = cache_alloc;
    a->free = cache_free;
}
